# usage: PYTHONPATH=<tree>/src python describe.py <tree>/src out.json
import sys, json, dataclasses, typing, types, importlib, pathlib, datetime, uuid, enum
src=pathlib.Path(sys.argv[1]); out=sys.argv[2]
import kio
assert str(pathlib.Path(kio.__file__).resolve()).startswith(str(src.resolve())), kio.__file__
root=src/"kio"/"schema"
def ann(t):
    o=typing.get_origin(t)
    if o is types.UnionType or o is typing.Union:
        return " | ".join(sorted((ann(a) for a in typing.get_args(t)), key=lambda s:(s=="None",s)))
    if o is tuple:
        a=typing.get_args(t); assert a[1] is Ellipsis; return f"tuple[{ann(a[0])}, ...]"
    if t is type(None): return "None"
    if dataclasses.is_dataclass(t): return "@"+t.__name__
    m=t.__module__
    if m=="kio.schema.types": return "types."+t.__name__+"("+ann(t.__mro__[1])+")"
    return (m+"." if m not in ("builtins","kio.static.primitive","kio.schema.errors") else "")+t.__name__
def dflt(d):
    if d is dataclasses.MISSING: return ["MISSING"]
    if d is None: return ["None"]
    if dataclasses.is_dataclass(d): return ["dc", type(d).__name__, {f.name:dflt(getattr(d,f.name)) for f in dataclasses.fields(d)}]
    if isinstance(d, enum.Enum): return ["enum", type(d).__name__, d.name]
    if isinstance(d, bool): return ["bool", d]
    if isinstance(d, int): return ["int", int(d)]
    if isinstance(d, float): return ["float", repr(float(d))]
    if isinstance(d, str): return ["str", str(d)]
    if isinstance(d, bytes): return ["bytes", d.hex()]
    if isinstance(d, tuple): return ["tuple", [dflt(x) for x in d]]
    if isinstance(d, datetime.timedelta): return ["td_us", d//datetime.timedelta(microseconds=1)]
    if isinstance(d, uuid.UUID): return ["uuid", str(d)]
    raise Exception(repr(d))
res={"modules":{}}
for p in sorted(root.glob("*/v*/*.py")):
    if p.name=="__init__.py": continue
    modname="kio.schema."+".".join(p.relative_to(root).with_suffix("").parts)
    m=importlib.import_module(modname)
    classes=[]
    for k,v in vars(m).items():
        if isinstance(v,type) and dataclasses.is_dataclass(v) and v.__module__==modname:
            P=v.__dataclass_params__
            cv={a:(getattr(v,a).__module__+":"+getattr(v,a).__name__ if isinstance(getattr(v,a),type) else (getattr(v,a).name if isinstance(getattr(v,a),enum.Enum) else getattr(v,a))) for a in ("__type__","__version__","__flexible__","__api_key__","__header_schema__") if hasattr(v,a)}
            classes.append({"name":v.__name__,"params":[P.init,P.repr,P.eq,P.order,P.unsafe_hash,P.frozen],"slots":list(v.__slots__),"cv":cv,
              "fields":[{"name":f.name,"type":ann(f.type),"meta":dict(f.metadata),"default":dflt(f.default),"kw_only":f.kw_only} for f in dataclasses.fields(v)]})
    pkg=importlib.import_module(modname.rsplit(".",1)[0])
    res["modules"][modname]={"classes":classes}
    res.setdefault("exports",{})[pkg.__name__]=sorted(getattr(pkg,"__all__",()))
import kio.schema.types as T
res["types"]={k:ann(v.__mro__[1]) for k,v in vars(T).items() if isinstance(v,type) and v.__module__==T.__name__}
import kio.schema.errors as E
res["errors"]=[[c.name,int(c.value),c.retriable] for c in E.ErrorCode]
try:
    import kio.schema.index as I
    res["api_key_map"]={str(k):v for k,v in I.api_key_map.items()}
    res["schema_name_map"]={n:{str(v):{t.name:p for t,p in tm.items()} for v,tm in vm.items()} for n,vm in I.schema_name_map.items()}
except Exception as e: res["index_error"]=repr(e)
json.dump(res, open(out,"w"), indent=0, sort_keys=True)
print("modules", len(res["modules"]), "classes", sum(len(m["classes"]) for m in res["modules"].values()))
