# usage: python reconstruct.py base.json outdir   (reads a describe_tree JSON, writes definitions + error-codes.txt)
import sys, json, re, collections, pathlib
sys.path.insert(0,"/repo")
from codegen.case import to_snake_case
from codegen.parser import timedelta_names, datetime_names, error_code_names
D=json.load(open(sys.argv[1])); out=pathlib.Path(sys.argv[2]); out.mkdir(parents=True, exist_ok=True)
fam=collections.defaultdict(dict)
for modname,m in D["modules"].items():
    _,_,api,v,typ=modname.split(".")
    fam[(api,typ)][int(v[1:])]={c["name"]:c for c in m["classes"]}
def rng(vs, allv):
    vs=sorted(vs); assert vs==list(range(vs[0],vs[-1]+1)), vs
    if vs[-1]==max(allv): return f"{vs[0]}+"
    return f"{vs[0]}-{vs[-1]}" if vs[0]!=vs[-1] else f"{vs[0]}"
def camel(s): return "".join(p[:1].upper()+p[1:] for p in s.rstrip("_").split("_"))
def json_name(snake, kt):
    base=camel(snake)
    cands=[base]
    if kt in ("timedelta_i32","timedelta_i64"): cands=[n for n in timedelta_names if to_snake_case(n.removesuffix("Ms"))==snake]
    elif kt=="datetime_i64": cands=[n for n in datetime_names if to_snake_case(n.removesuffix("Ms"))==snake]
    elif kt=="error_code": cands=[n for n in error_code_names if to_snake_case(n)==snake]
    for c in cands:
        chk=c.removesuffix("Ms") if kt in ("timedelta_i32","timedelta_i64","datetime_i64") else c
        if to_snake_case(chk)==snake: return c
    raise Exception(("no json name", snake, kt, cands))
RAW={"timedelta_i32":"int32","timedelta_i64":"int64","datetime_i64":"int64","error_code":"int16"}
def parse_type(t):
    opt=False; arr=False; iopt=False
    if t.endswith(" | None") and not t.startswith("tuple[") or (t.startswith("tuple[") and t.endswith("...] | None")): opt=True; t=t[:-len(" | None")]
    if t.startswith("tuple["):
        arr=True; t=t[len("tuple["):-len(", ...]")]
        if t.endswith(" | None"): iopt=True; t=t[:-len(" | None")]
    return t,opt,arr,iopt
def json_default(d, kt, opt):
    k=d[0]
    if k=="MISSING": return None
    if k=="None": return "-1" if kt=="datetime_i64" else "null"
    if k=="int": return str(d[1])
    if k=="bool": return "true" if d[1] else "false"
    if k=="str": return d[1]
    if k=="float": return d[1]
    if k=="enum": 
        return {"none":"0"}[d[2]]
    if k=="td_us": assert d[1]%1000==0; return str(d[1]//1000)
    if k in("tuple","dc"): return None
    raise Exception(d)
def build_fields(cname, vers_classes, allv):
    """vers_classes: {version: classdict for class cname} -> list of json fields"""
    order=[]; info=collections.defaultdict(dict)
    for v in sorted(vers_classes):
        prev=None
        for f in vers_classes[v][cname]["fields"]:
            if f["name"] not in order:
                idx=order.index(prev)+1 if prev in order else 0
                order.insert(idx,f["name"])
            info[f["name"]][v]=f; prev=f["name"]
    res=[]
    for name in order:
        fv=info[name]; vs=sorted(fv); f0=fv[vs[0]]
        t,_,arr,iopt=parse_type(f0["type"])
        kt=f0["meta"].get("kafka_type")
        j={}
        optv=[v for v in vs if parse_type(fv[v]["type"])[1]]
        tagv=[v for v in vs if "tag" in fv[v]["meta"]]
        assert len({json.dumps(fv[v]["default"]) for v in vs})==1, (cname,name)
        if kt is None:
            inner=t.lstrip("@")
            j["name"]=camel(name); assert to_snake_case(j["name"])==name,(name,j["name"])
            j["type"]=("[]" if arr else "")+inner
            sub={v:vers_classes[v] for v in vs}
            j["fields"]=build_fields(inner, sub, allv)
            if not arr and f0["default"][0]=="None": j["default"]="null"
        else:
            j["name"]=json_name(name,kt)
            j["type"]=("[]" if arr else "")+RAW.get(kt,kt)
            m=re.match(r"types\.(\w+)\(", t)
            if m: j["entityType"]=m.group(1)[0].lower()+m.group(1)[1:]
            if not arr:
                d=json_default(f0["default"],kt,bool(optv))
                if tagv and f0["default"][0]=="None": d=None; j["ignorable"]=True
                if d is not None: j["default"]=d
        j["versions"]=rng(vs,allv)
        if optv and kt not in ("uuid",) and not (kt=="datetime_i64" and j.get("default")=="-1") and not j.get("ignorable"):
            j["nullableVersions"]=rng(optv,allv)
        if tagv:
            j["tag"]=f0["meta"]["tag"] if "tag" in f0["meta"] else fv[tagv[0]]["meta"]["tag"]
            j["taggedVersions"]=rng(tagv,allv)
            if "default" not in j and f0["default"][0] not in ("MISSING",) and not arr and kt is not None: j["ignorable"]=True
        res.append(j)
    return res
n=0
for (api,typ),vers in sorted(fam.items()):
    allv=sorted(vers)
    top=[c for c in vers[allv[-1]].values() if c["cv"]["__type__"]!="nested"]; assert len(top)==1
    top=top[0]; flex=[v for v in allv if vers[v][top["name"]]["cv"]["__flexible__"]]
    j={"type":typ,"name":top["name"],"validVersions":f"{allv[0]}-{allv[-1]}","flexibleVersions":(f"{flex[0]}+" if flex else "none"),
       "fields":build_fields(top["name"],vers,allv)}
    if "__api_key__" in top["cv"]: j["apiKey"]=top["cv"]["__api_key__"]
    (out/f"{top['name']}.json").write_text("// reconstructed\n"+json.dumps(j,indent=2)); n+=1
with open(out/"error-codes.txt","w") as fd:
    for name,val,ret in D["errors"]: fd.write(f"{val} {name.upper()} {ret} msg\n")
print("definitions", n)
