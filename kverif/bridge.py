"""E3 - wire value <-> kio instance, integer arithmetic only for time types."""

from __future__ import annotations

import dataclasses
import datetime
import enum
import uuid

EPOCH = datetime.datetime(1970, 1, 1, tzinfo=datetime.timezone.utc)
MS = datetime.timedelta(milliseconds=1)
MAX_DT_MS = 253402300799999  # last whole millisecond of year 9999 (UTC)
TD_MIN_MS = datetime.timedelta.min // MS
TD_MAX_MS = datetime.timedelta.max // MS


class OutOfDomain(Exception):
    """The wire value has no representation in kio's Python value types."""


# 2023-10-29T00:30:00Z and one hour later: 02:30 CEST (fold=0) and 02:30 CET (fold=1) in Europe/Berlin - the same
# wall clock time, two instants.  These two wire values are presented to kio as datetimes in that zone, every
# other timestamp in UTC (a TZAware may carry any zone; the wire value is the instant).  Only where PRESENT_FOLD is set.
FOLD_TWINS = (1698539400000, 1698543000000)
_berlin = None


def _fold_zone():
    global _berlin
    if _berlin is None:
        try:
            import zoneinfo

            _berlin = zoneinfo.ZoneInfo("Europe/Berlin")
        except Exception:  # noqa: BLE001 - no tz database: stay in UTC
            _berlin = datetime.timezone.utc
    return _berlin


PRESENT_FOLD = False  # set by checks that compare BYTES (C02); equality-based checks keep UTC, because by PEP 495 a
# fold=1 datetime never compares equal to a datetime in another zone, which is Python's rule, not kio's


def ms_to_datetime(n: int) -> datetime.datetime:
    if not 0 <= n <= MAX_DT_MS:
        raise OutOfDomain(f"timestamp {n} ms")
    dt = EPOCH + datetime.timedelta(milliseconds=n)
    if PRESENT_FOLD and n in FOLD_TWINS:
        return dt.astimezone(_fold_zone())
    return dt


def datetime_to_ms(dt: datetime.datetime) -> int:
    delta = dt - EPOCH
    q, r = divmod(delta, MS)
    if r:
        raise OutOfDomain(f"{dt!r} is not a whole millisecond")
    return q


def ms_to_timedelta(n: int) -> datetime.timedelta:
    if not TD_MIN_MS <= n <= TD_MAX_MS:
        raise OutOfDomain(f"duration {n} ms")
    return datetime.timedelta(milliseconds=n)


def timedelta_to_ms(td: datetime.timedelta) -> int:
    q, r = divmod(td, MS)
    if r:
        raise OutOfDomain(f"{td!r} is not a whole millisecond")
    return q


_error_code = None


def error_code_cls():
    global _error_code
    if _error_code is None:
        from kio.schema.errors import ErrorCode

        _error_code = ErrorCode
    return _error_code


def scalar_to_py(f, v):
    kt = f.kafka_type
    if v is None:
        return None
    if kt == "uuid":
        return uuid.UUID(bytes=v)
    if kt == "error_code":
        try:
            return error_code_cls()(v)
        except ValueError:
            raise OutOfDomain(f"error code {v}") from None
    if kt in ("timedelta_i32", "timedelta_i64"):
        return ms_to_timedelta(v)
    if kt == "datetime_i64":
        return ms_to_datetime(v)
    if kt == "string":
        t = f.pytype
        if isinstance(t, type) and issubclass(t, str) and t is not str:
            return t(v)
        return v
    if kt in ("bytes", "records"):
        return v
    return v  # ints, bool, float: plain python values


def scalar_from_py(f, v):
    kt = f.kafka_type
    if v is None:
        return None
    if kt == "uuid":
        if not isinstance(v, uuid.UUID):
            raise OutOfDomain(f"uuid expected, got {type(v).__name__}")
        return None if v.int == 0 else v.bytes
    if kt == "error_code":
        if isinstance(v, enum.Enum):
            return int(v.value)
        raise OutOfDomain(f"error code expected, got {v!r}")
    if kt in ("timedelta_i32", "timedelta_i64"):
        if not isinstance(v, datetime.timedelta):
            raise OutOfDomain(f"timedelta expected, got {type(v).__name__}")
        return timedelta_to_ms(v)
    if kt == "datetime_i64":
        if not isinstance(v, datetime.datetime):
            raise OutOfDomain(f"datetime expected, got {type(v).__name__}")
        return datetime_to_ms(v)
    if kt == "string":
        if not isinstance(v, str):
            raise OutOfDomain(f"str expected, got {type(v).__name__}")
        return str(v)
    if kt in ("bytes", "records"):
        if not isinstance(v, bytes):
            raise OutOfDomain(f"bytes expected, got {type(v).__name__}")
        return bytes(v)
    if kt == "bool":
        if not isinstance(v, bool):
            raise OutOfDomain(f"bool expected, got {type(v).__name__}")
        return v
    if kt == "float64":
        if not isinstance(v, float):
            raise OutOfDomain(f"float expected, got {type(v).__name__}")
        return float(v)
    if isinstance(v, bool) or not isinstance(v, int):
        raise OutOfDomain(f"int expected, got {type(v).__name__}")
    return int(v)


def to_entity(ws, w):
    """wire value (dict) -> kio instance of ws.cls"""
    kw = {}
    for f in ws.fields:
        v = w[f.name]
        if f.array:
            if v is None:
                kw[f.name] = None
            elif f.nested is not None:
                kw[f.name] = tuple(None if x is None else to_entity(f.nested, x) for x in v)
            else:
                kw[f.name] = tuple(scalar_to_py(f, x) for x in v)
        elif f.nested is not None:
            kw[f.name] = None if v is None else to_entity(f.nested, v)
        else:
            kw[f.name] = scalar_to_py(f, v)
    return ws.cls(**kw)


def from_entity(ws, inst):
    """kio instance -> wire value (dict).  Raises OutOfDomain when the instance holds a value the
    wire cannot carry exactly (sub-millisecond time, wrong Python type)."""
    if type(inst) is not ws.cls:
        raise OutOfDomain(f"{type(inst).__qualname__} is not {ws.cls.__qualname__}")
    out = {}
    for f in ws.fields:
        v = getattr(inst, f.name)
        if f.array:
            if v is None:
                out[f.name] = None
            else:
                if not isinstance(v, tuple):
                    raise OutOfDomain(f"{f.name}: tuple expected, got {type(v).__name__}")
                if f.nested is not None:
                    out[f.name] = [None if x is None else from_entity(f.nested, x) for x in v]
                else:
                    out[f.name] = [scalar_from_py(f, x) for x in v]
        elif f.nested is not None:
            out[f.name] = None if v is None else from_entity(f.nested, v)
        else:
            out[f.name] = scalar_from_py(f, v)
    return out


ZERO = {
    "string": "",
    "bytes": b"",
    "records": None,
    "uuid": None,  # all-zero uuid == null
    "bool": False,
    "float64": 0.0,
}


def wire_default(f):
    """Wire-level default of a (tagged) field: the class's explicit default if it has one, else
    the type's zero value (KIP-482)."""
    if f.has_default:
        d = f.default
        if f.array:
            if d is None:
                return None
            if f.nested is not None:
                return [from_entity(f.nested, x) for x in d]
            return [scalar_from_py(f, x) for x in d]
        if f.nested is not None:
            return None if d is None else from_entity(f.nested, d)
        return scalar_from_py(f, d)
    if f.array:
        return []
    if f.nested is not None:
        return {g.name: wire_default(g) for g in f.nested.fields}
    return ZERO.get(f.kafka_type, 0)


def strip_x(w):
    """Drop the "__x__" annotations (what a decoder is expected to return)."""
    if isinstance(w, dict):
        return {k: strip_x(v) for k, v in w.items() if k != "__x__"}
    if isinstance(w, list):
        return [strip_x(v) for v in w]
    return w


def same_wire(a, b, zero_sign=True):
    """Equality of wire values that distinguishes -0.0 from 0.0 (unless zero_sign=False), NaN
    payloads, bool from int."""
    import struct

    if isinstance(a, float) and isinstance(b, float):
        if not zero_sign and a == 0.0 and b == 0.0:
            return True
        return struct.pack(">d", a) == struct.pack(">d", b)
    if type(a) is not type(b):
        return False
    if isinstance(a, dict):
        return a.keys() == b.keys() and all(same_wire(a[k], b[k], zero_sign) for k in a)
    if isinstance(a, list):
        return len(a) == len(b) and all(same_wire(x, y, zero_sign) for x, y in zip(a, b))
    return a == b
