"""./check <ID> [--tier quick|thorough] [--replay FILE]"""

from __future__ import annotations

import argparse
import importlib
import os
import sys
import traceback

from .core import HarnessError, LibraryRaised, raised_in_library

REGISTRY = {
    "C01": "kverif.props.codec:run_c01",
    "C02": "kverif.props.codec:run_c02",
    "C03": "kverif.props.codec:run_c03",
    "C04": "kverif.props.generator:run_c04",
    "C05": "kverif.props.codec:run_c05",
    "C06": "kverif.props.faults:run_c06",
    "C07": "kverif.props.stream:run_c07",
    "C08": "kverif.props.config:run_c08",
    "C09": "kverif.props.index_prop:run_c09",
    "C10": "kverif.props.malformed:run_c10",
    "C11": "kverif.props.prims:run_c11",
    "C12": "kverif.props.prims:run_c12",
    "C13": "kverif.props.config:run_c13",
    "C14": "kverif.props.config:run_c14",
    "C15": "kverif.props.immut:run_c15",
    "C16": "kverif.props.generator:run_c16",
    "C17": "kverif.props.records:run_c17",
    "C19": "kverif.props.state:run_c19",
    "C18": "kverif.props.records:run_c18",
}


def main(argv=None):
    ap = argparse.ArgumentParser(prog="check")
    ap.add_argument("prop")
    ap.add_argument("--tier", default=os.environ.get("VERIF_TIER") or "quick", choices=["quick", "thorough"])
    ap.add_argument("--replay", default=None)
    args = ap.parse_args(argv)
    prop = args.prop.upper()
    if prop not in REGISTRY:
        print(f"HARNESS-ERROR unknown property {prop}")
        return 2
    modname, fn = REGISTRY[prop].split(":")
    try:
        mod = importlib.import_module(modname)
        if args.replay and "uncaught_library_exception" in open(args.replay).read(2000000):
            args.replay = None  # such a record is replayed by running the check again
        if args.replay:
            rmod = importlib.import_module("kverif.props.faults") if prop == "C10" else mod
            return getattr(rmod, "replay")(prop, args.replay)
        return getattr(mod, fn)(args.tier)
    except LibraryRaised as e:
        return library_raised(prop, args.tier, e.exc_name, e.text)
    except HarnessError as e:
        print(f"HARNESS-ERROR property={prop} {e}")
        return 2
    except Exception as e:  # noqa: BLE001
        if raised_in_library(e.__traceback__) and not args.replay:
            return library_raised(prop, args.tier, type(e).__name__, traceback.format_exc())
        print(f"HARNESS-ERROR property={prop} unexpected exception in the checker")
        traceback.print_exc()
        return 2


def library_raised(prop, tier, exc_name, text):
    """An unexpected exception escaped from the library where the harness calls it with in-domain arguments and
    guards nothing: reported as a violation of the property under check (see core.LibraryRaised)."""
    import json

    from .core import ROOT, Run, violation

    try:
        level = next(p["level_claimed"]["category"] for p in json.load(open(os.path.join(ROOT, "MANIFEST.json")))["checks"] if p["property_id"] == prop)
    except Exception:  # noqa: BLE001
        level = "exploration"
    run = Run(prop, tier, level)
    lines = [l for l in text.strip().splitlines() if l.strip()]
    where = next((l.strip() for l in reversed(lines) if l.strip().startswith("File ")), "?")
    run.report(violation(prop, "uncaught", f"{prop}/library-raised-where-every-call-succeeds-on-a-correct-tree/{exc_name}", "-",
                         {"uncaught_library_exception": exc_name, "where": where, "traceback": text[-3000:]},
                         "the call returns (the harness passes in-domain arguments here)", lines[-1][:300] if lines else exc_name, (0,)))
    run.cov["rule"] = "the exploration stopped at an exception escaping from the library under test; nothing else was judged in this run"
    run.notes["aborted"] = True
    run.cov["evaluations"] = run.cov["distinct_nontrivial"] = 1  # the call that raised
    return run.finish()


if __name__ == "__main__":
    sys.stdout.reconfigure(line_buffering=True)
    sys.exit(main())
