"""./check <ID> [--tier quick|thorough] [--replay FILE]"""

from __future__ import annotations

import argparse
import importlib
import os
import sys
import traceback

from .core import HarnessError

REGISTRY = {
    "C01": "kverif.props.codec:run_c01",
    "C02": "kverif.props.codec:run_c02",
    "C03": "kverif.props.codec:run_c03",
    "C04": "kverif.props.generator:run_c04",
    "C05": "kverif.props.codec:run_c05",
    "C06": "kverif.props.faults:run_c06",
    "C07": "kverif.props.stream:run_c07",
    "C08": "kverif.props.config:run_c08",
    "C09": "kverif.props.index_prop:run_c09",
    "C10": "kverif.props.malformed:run_c10",
    "C11": "kverif.props.prims:run_c11",
    "C12": "kverif.props.prims:run_c12",
    "C13": "kverif.props.config:run_c13",
    "C14": "kverif.props.config:run_c14",
    "C15": "kverif.props.immut:run_c15",
    "C16": "kverif.props.generator:run_c16",
    "C17": "kverif.props.records:run_c17",
    "C19": "kverif.props.state:run_c19",
    "C18": "kverif.props.records:run_c18",
}


def main(argv=None):
    ap = argparse.ArgumentParser(prog="check")
    ap.add_argument("prop")
    ap.add_argument("--tier", default=os.environ.get("VERIF_TIER") or "quick", choices=["quick", "thorough"])
    ap.add_argument("--replay", default=None)
    args = ap.parse_args(argv)
    prop = args.prop.upper()
    if prop not in REGISTRY:
        print(f"HARNESS-ERROR unknown property {prop}")
        return 2
    modname, fn = REGISTRY[prop].split(":")
    try:
        mod = importlib.import_module(modname)
        if args.replay:
            rmod = importlib.import_module("kverif.props.faults") if prop == "C10" else mod
            return getattr(rmod, "replay")(prop, args.replay)
        return getattr(mod, fn)(args.tier)
    except HarnessError as e:
        print(f"HARNESS-ERROR property={prop} {e}")
        return 2
    except Exception:  # noqa: BLE001
        print(f"HARNESS-ERROR property={prop} unexpected exception in the checker")
        traceback.print_exc()
        return 2


if __name__ == "__main__":
    sys.stdout.reconfigure(line_buffering=True)
    sys.exit(main())
