"""E1 - walk /repo/src/kio/schema on disk and derive, for every dataclass, a WireSchema from the
documented metadata contract (field.metadata["kafka_type"|"tag"], tuple[T, ...], T | None, class
constants).  Deliberately does not call kio.serial._introspect / _implicit_defaults, nor
kio.schema.index / codegen.introspect_schema (those are themselves under check)."""

from __future__ import annotations

import dataclasses
import importlib
import os
import re
import types
import typing

from .core import REPO, HarnessError

SCHEMA_DIR = os.path.join(REPO, "src", "kio", "schema")

KAFKA_TYPES = (
    "int8", "int16", "int32", "int64", "uint8", "uint16", "uint32", "uint64", "float64",
    "string", "bytes", "records", "uuid", "bool", "error_code",
    "timedelta_i32", "timedelta_i64", "datetime_i64",
)  # fmt: skip


class SchemaContractError(Exception):
    """The class does not follow the documented metadata contract (a C13 matter)."""


@dataclasses.dataclass(eq=False)
class WField:
    name: str
    kafka_type: str | None  # None for structs
    array: bool
    nullable: bool  # the value itself (scalar, struct or whole array) may be null
    item_nullable: bool  # array items may be null (uuid arrays)
    tag: int | None
    has_default: bool
    default: object  # python-level default (dataclasses.MISSING if none)
    pytype: object  # innermost annotation class
    nested: "WSchema | None"
    annotation: object = None


@dataclasses.dataclass(eq=False)
class WSchema:
    cls: type
    path: str  # "module:QualName"
    flexible: bool  # the VERSION's flexibility per the pinned API table (the class constant where no pin applies)
    fields: list[WField]
    is_request_header: bool
    etype: str
    declared_flexible: bool = False  # the class's own __flexible__

    @property
    def untagged(self):
        return [f for f in self.fields if f.tag is None]

    @property
    def tagged(self):
        return sorted((f for f in self.fields if f.tag is not None), key=lambda f: f.tag)


def disk_modules():
    """[(api, version, type, module_name)] for every <api>/v<N>/<type>.py on disk."""
    out = []
    for api in sorted(os.listdir(SCHEMA_DIR)):
        d = os.path.join(SCHEMA_DIR, api)
        if not os.path.isdir(d) or api.startswith("__"):
            continue
        for vdir in sorted(os.listdir(d)):
            m = re.fullmatch(r"v(\d+)", vdir)
            if not m or not os.path.isdir(os.path.join(d, vdir)):
                continue
            for fn in sorted(os.listdir(os.path.join(d, vdir))):
                if fn.endswith(".py") and fn != "__init__.py":
                    out.append((api, int(m.group(1)), fn[:-3], f"kio.schema.{api}.{vdir}.{fn[:-3]}"))
    out.sort(key=lambda t: (t[0], t[1], t[2]))
    return out


def module_classes(mod):
    return [
        v
        for v in vars(mod).values()
        if isinstance(v, type) and v.__module__ == mod.__name__ and dataclasses.is_dataclass(v)
    ]


_cache: dict[type, WSchema] = {}


def _strip_none(t):
    """X | None -> (X, True); X -> (X, False)."""
    if isinstance(t, types.UnionType) or typing.get_origin(t) is typing.Union:
        args = typing.get_args(t)
        non = [a for a in args if a is not type(None)]
        if len(non) != 1 or len(args) != 2:
            raise SchemaContractError(f"unsupported union {t!r}")
        return non[0], True
    return t, False


def wire_schema(cls) -> WSchema:
    if cls in _cache:
        return _cache[cls]
    if not dataclasses.is_dataclass(cls):
        raise SchemaContractError(f"{cls!r} is not a dataclass")
    flexible = cls.__dict__.get("__flexible__")
    if not isinstance(flexible, bool):
        raise SchemaContractError(f"{cls!r} lacks a bool __flexible__")
    fields = []
    for f in dataclasses.fields(cls):
        t = f.type
        if isinstance(t, str):
            raise SchemaContractError(f"{cls.__name__}.{f.name}: string annotation {t!r}")
        t, outer_null = _strip_none(t)
        array = False
        item_null = False
        if typing.get_origin(t) is tuple:
            args = typing.get_args(t)
            if len(args) != 2 or args[1] is not Ellipsis:
                raise SchemaContractError(f"{cls.__name__}.{f.name}: tuple args {args!r}")
            array = True
            t, item_null = _strip_none(args[0])
        elif outer_null and typing.get_origin(t) is not None:
            raise SchemaContractError(f"{cls.__name__}.{f.name}: {f.type!r}")
        if not isinstance(t, type):
            raise SchemaContractError(f"{cls.__name__}.{f.name}: annotation {f.type!r}")
        md = f.metadata
        tag = md.get("tag")
        if tag is not None and (not isinstance(tag, int) or isinstance(tag, bool)):
            raise SchemaContractError(f"{cls.__name__}.{f.name}: tag {tag!r}")
        if dataclasses.is_dataclass(t):
            if "kafka_type" in md:
                raise SchemaContractError(f"{cls.__name__}.{f.name}: struct with kafka_type")
            nested = wire_schema(t)
            kt = None
        else:
            nested = None
            kt = md.get("kafka_type")
            if kt not in KAFKA_TYPES:
                raise SchemaContractError(f"{cls.__name__}.{f.name}: kafka_type {kt!r}")
        if f.default_factory is not dataclasses.MISSING:
            raise SchemaContractError(f"{cls.__name__}.{f.name}: default_factory")
        fields.append(
            WField(
                name=f.name,
                kafka_type=kt,
                array=array,
                nullable=outer_null,
                item_nullable=item_null,
                tag=tag,
                has_default=f.default is not dataclasses.MISSING,
                default=f.default,
                pytype=t,
                nested=nested,
                annotation=f.type,
            )
        )
    et = cls.__dict__.get("__type__")
    ws = WSchema(
        cls=cls,
        path=f"{cls.__module__}:{cls.__qualname__}",
        flexible=pinned_flexibility(cls.__module__, flexible),
        declared_flexible=flexible,
        fields=fields,
        is_request_header=cls.__module__.startswith("kio.schema.request_header."),
        etype=getattr(et, "name", str(et)),
    )
    _cache[cls] = ws
    return ws


_pins = None


def pinned_flexibility(modname, declared):
    """Flexibility of kio.schema.<api>.v<N>.<type> according to pins/kafka-3.9.0-apis.json; the declared value
    for anything else (synthetic classes, scratch packages).  The reference codec follows the VERSION's
    flexibility, not what an individual class says about itself."""
    global _pins
    m = re.fullmatch(r"kio\.schema\.([a-z0-9_]+)\.v(\d+)\.(request|response|header|data)", modname)
    if not m:
        return declared
    if _pins is None:
        import json

        from .core import ROOT

        _pins = json.load(open(os.path.join(ROOT, "pins", "kafka-3.9.0-apis.json")))
    t = _pins.get(m.group(1), {}).get("types", {}).get(m.group(3))
    if t is None or not t["min"] <= int(m.group(2)) <= t["max"]:
        return declared
    return t["first_flexible"] is not None and int(m.group(2)) >= t["first_flexible"]


_all = None


def all_classes():
    """[(api, version, type, module, cls)] for every dataclass of every version module, in
    disk order then definition order.  Imports every module."""
    global _all
    if _all is None:
        import kio

        if not os.path.realpath(kio.__file__).startswith(os.path.realpath(REPO) + os.sep):
            raise HarnessError(f"kio imported from {kio.__file__}, not from {REPO}")
        out = []
        for api, ver, typ, modname in disk_modules():
            mod = importlib.import_module(modname)
            for cls in module_classes(mod):
                out.append((api, ver, typ, mod, cls))
        _all = out
    return _all


def load_class(path: str):
    modname, qual = path.split(":")
    obj = importlib.import_module(modname)
    for part in qual.split("."):
        obj = getattr(obj, part)
    return obj
