"""E5 - environment models and fault injectors: recording sinks/sources, failing streams,
cuts and byte mutations aimed by the reference layout, and a deterministic step budget."""

from __future__ import annotations

import io
import sys


class InjectedIOError(OSError):
    pass


class WriteOnlySink:
    """A socket-like sink: only write(bytes-like).  Every other attribute access is recorded and
    raises AttributeError."""

    def __init__(self, fail_at=None):
        self.__dict__["calls"] = []
        self.__dict__["chunks"] = []
        self.__dict__["other"] = []
        self.__dict__["fail_at"] = fail_at

    def write(self, data):
        i = len(self.calls)
        self.calls.append(("write", type(data).__name__, len(data)))
        if self.fail_at is not None and i == self.fail_at:
            raise InjectedIOError(f"injected failure at write call {i}")
        if not isinstance(data, (bytes, bytearray, memoryview)):
            self.other.append(f"write({type(data).__name__})")
            raise TypeError("a bytes-like object is required")
        # like a transport under back-pressure, the sink queues the object it was handed; the
        # copy taken now is what a sink that sends immediately would have put on the wire
        self.chunks.append(bytes(data))
        self.__dict__.setdefault("retained", []).append(data)
        return len(data)

    def getvalue(self):
        return b"".join(self.chunks)

    def retained_value(self):
        """What a queueing sink sends when it flushes later: the retained objects' contents now."""
        return b"".join(bytes(x) for x in self.__dict__.get("retained", []))

    def __getattr__(self, name):
        if name.startswith("__") and name.endswith("__"):
            raise AttributeError(name)
        self.other.append(name)
        raise AttributeError(f"write-only sink has no attribute {name!r}")

    def __setattr__(self, name, value):
        self.other.append(f"set:{name}")
        raise AttributeError(name)


class ReadOnlySource:
    """A socket-file-like source: only read(n).  Never returns more than asked; a negative or
    missing n reads to the end of the data (as a socket file would) and is recorded."""

    def __init__(self, data, pos=0, fail_at=None):
        self.__dict__.update(data=bytes(data), pos=pos, calls=[], other=[], fail_at=fail_at,
                             negative_reads=0)

    def read(self, n=-1):
        i = len(self.calls)
        self.calls.append(n)
        if self.fail_at is not None and i == self.fail_at:
            raise InjectedIOError(f"injected failure at read call {i}")
        if n is None or n < 0:
            self.__dict__["negative_reads"] += 1
            n = len(self.data) - self.pos
        out = self.data[self.pos : self.pos + n]
        self.__dict__["pos"] = self.pos + len(out)
        return out

    def __getattr__(self, name):
        if name.startswith("__") and name.endswith("__"):
            raise AttributeError(name)
        self.other.append(name)
        raise AttributeError(f"read-only source has no attribute {name!r}")

    def __setattr__(self, name, value):
        self.other.append(f"set:{name}")
        raise AttributeError(name)


class CountingBytesIO(io.BytesIO):
    """io.BytesIO that counts the bytes its read() hands out: a decoder that re-reads or reads ahead obtains more
    bytes than the input holds."""

    returned = 0
    nreads = 0

    def read(self, *a):
        b = super().read(*a)
        self.returned += len(b)
        self.nreads += 1
        return b


class DribbleRaw(io.RawIOBase):
    """Raw stream that hands out at most `step` bytes per readinto, like a socket."""

    def __init__(self, data, step=3):
        self.data, self.pos, self.step = bytes(data), 0, step

    def readable(self):
        return True

    def readinto(self, b):
        n = min(len(b), self.step, len(self.data) - self.pos)
        b[:n] = self.data[self.pos : self.pos + n]
        self.pos += n
        return n


def buffered_source(data, pos=0):
    """A BufferedReader over a dribbling raw stream (socket.makefile('rb') look-alike)."""
    r = io.BufferedReader(DribbleRaw(data), buffer_size=16)
    if pos:
        r.read(pos)
    return r


class FakeTransport:
    def __init__(self):
        self.chunks = []
        self.other = []
        self.retained = []
        self.closed = False

    def write(self, data):
        self.chunks.append(bytes(data))
        self.retained.append(data)

    def retained_value(self):
        return b"".join(bytes(x) for x in self.retained)

    def is_closing(self):
        return self.closed

    def close(self):
        self.closed = True

    def get_extra_info(self, name, default=None):
        return default

    def getvalue(self):
        return b"".join(self.chunks)


_loop = None


def stream_writer():
    """(asyncio.StreamWriter, transport) over a recording fake transport; write() is synchronous
    so no running loop is needed."""
    import asyncio

    global _loop
    if _loop is None:
        _loop = asyncio.new_event_loop()
    tr = FakeTransport()
    proto = asyncio.StreamReaderProtocol(asyncio.StreamReader(loop=_loop), loop=_loop)
    w = asyncio.StreamWriter(tr, proto, None, _loop)
    return w, tr


# ---------------------------------------------------------------------------------------
# faults on encodings
# ---------------------------------------------------------------------------------------
def cuts(enc: bytes):
    for i in range(len(enc)):
        yield i, enc[:i]


OVERWRITES = (0x00, 0x01, 0x7F, 0x80, 0xFF)


def single_mutations(enc: bytes, offsets=None):
    """All single-byte overwrites from {00,01,7f,80,ff,b^80,b^01,b+1}, all single deletions, all
    single insertions from {00,01,80,ff} (at the given offsets, default all)."""
    offs = range(len(enc)) if offsets is None else offsets
    for i in offs:
        b = enc[i]
        vals = []
        for v in OVERWRITES + (b ^ 0x80, b ^ 0x01, (b + 1) & 0xFF):
            if v != b and v not in vals:
                vals.append(v)
        for v in vals:
            yield ("overwrite", i, v), enc[:i] + bytes([v]) + enc[i + 1 :]
        yield ("delete", i, None), enc[:i] + enc[i + 1 :]
    ins = range(len(enc) + 1) if offsets is None else list(offsets) + [len(enc)]
    for i in ins:
        for v in (0x00, 0x01, 0x80, 0xFF):
            yield ("insert", i, v), enc[:i] + bytes([v]) + enc[i:]


def pair_overwrites(enc: bytes, offsets):
    """All pairs of overwrites on the given (layout-critical) offsets."""
    offsets = sorted(set(o for o in offsets if o < len(enc)))
    for a in range(len(offsets)):
        i = offsets[a]
        for va in OVERWRITES:
            if va == enc[i]:
                continue
            for b in range(a + 1, len(offsets)):
                j = offsets[b]
                for vb in OVERWRITES:
                    if vb == enc[j]:
                        continue
                    m = bytearray(enc)
                    m[i], m[j] = va, vb
                    yield ("overwrite2", (i, j), (va, vb)), bytes(m)


HOSTILE_VARINT = (b"\xff\xff\xff\xff\x0f", b"\x81\x80\x80\x80\x08", b"\x80\x80\x80\x80\x08", b"\x80\x80\x80\x80\x10",
                  b"\xff\xff\xff\xff\x7f", b"\xff\xff\xff\xff\xff\x0f", b"\x80\x80\x80\x80\x80\x01", b"\xff\xff\x03",
                  b"\x80", b"\xff\x7f", b"\x80\x00")
HOSTILE_FIXED = {4: (b"\x7f\xff\xff\xff", b"\x80\x00\x00\x00", b"\xff\xff\xff\xfe", b"\x00\x01\x00\x00", b"\xff\xff\xff\x00"),
                 2: (b"\x7f\xff", b"\x80\x00", b"\xff\xfe", b"\x01\x00"),
                 1: tuple(bytes([b]) for b in range(256))}


def prefix_substitutions(enc: bytes, layout, flexible, is_request_header=False):
    """Replace each whole length / count / tag / size / marker span by hostile encodings of that kind:
    maximal and over-long varints, lengths around 2^31, negative fixed-width lengths."""
    for s, e, kind, path in layout.spans:
        if kind == "data":
            continue
        fixed_len = kind == "marker" or (kind == "len" and (not flexible or (is_request_header and path.endswith(".client_id"))))
        if fixed_len:
            repls = HOSTILE_FIXED.get(e - s, ())
        else:
            repls = HOSTILE_VARINT
        for r in repls:
            if r != enc[s:e]:
                yield ("substitute", [s, e], r.hex()), enc[:s] + r + enc[e:]


ILL_FORMED_UTF8 = (b"\xed\xa0\x80", b"\xed\xbf\xbf", b"\xc0\x80", b"\xe0\x80\x80", b"\xf4\x90\x80\x80", b"\xf8\x88\x80\x80\x80",
                   b"\xe2\x82", b"\xc3", b"\xfe", b"\xed\xa0\xbd\xed\xb8\x80")


def payload_substitutions(enc: bytes, layout):
    """Overwrite the start and the end of each length-prefixed payload (string / bytes data span) in place
    with ill-formed UTF-8: encoded surrogates (CESU-8), over-long forms (modified UTF-8 NUL), code points
    beyond U+10FFFF, 5-byte forms, truncated sequences - everything a strict UTF-8 decoder refuses and a
    lenient one turns into a str the encoder cannot write."""
    prev = None
    for s, e, kind, path in layout.spans:
        if kind == "data" and prev is not None and prev[2] == "len" and prev[3] == path and prev[1] == s:
            for ill in ILL_FORMED_UTF8:
                n = len(ill)
                if n <= e - s:
                    if enc[s : s + n] != ill:
                        yield ("payload", [s, s + n], ill.hex()), enc[:s] + ill + enc[s + n :]
                    if e - n != s and enc[e - n : e] != ill:
                        yield ("payload", [e - n, e], ill.hex()), enc[: e - n] + ill + enc[e:]
        prev = (s, e, kind, path)


# ---------------------------------------------------------------------------------------
# step budget: deterministic stand-in for "time proportional to the input"
# ---------------------------------------------------------------------------------------
class BudgetExceeded(BaseException):
    pass


class StepBudget:
    """Counts PY_START and JUMP (loop back-edge) events in the code objects of the given modules
    via sys.monitoring local events; trips once when the armed limit is exceeded."""

    TOOL = 4

    def __init__(self, modules):
        self.n = 0
        self.limit = None
        self.installed = False
        self.modules = modules

    def _codes(self):
        import types

        seen = set()

        def walk(code):
            if code in seen:
                return
            seen.add(code)
            for c in code.co_consts:
                if isinstance(c, types.CodeType):
                    walk(c)

        for m in self.modules:
            for v in vars(m).values():
                f = getattr(v, "__func__", v)
                f = getattr(f, "__wrapped__", f)  # functools.cache wrappers
                if isinstance(f, types.FunctionType) and f.__module__ == m.__name__:
                    walk(f.__code__)
                elif isinstance(v, type) and v.__module__ == m.__name__:
                    for w in vars(v).values():
                        g = getattr(w, "__func__", w)
                        if isinstance(g, types.FunctionType):
                            walk(g.__code__)
        return seen

    def install(self):
        if self.installed:
            return
        mon = sys.monitoring
        if mon.get_tool(self.TOOL) is None:
            mon.use_tool_id(self.TOOL, "kverif-budget")
        ev = mon.events.PY_START | mon.events.JUMP
        mon.register_callback(self.TOOL, mon.events.PY_START, self._cb2)
        mon.register_callback(self.TOOL, mon.events.JUMP, self._cb3)
        for code in self._codes():
            mon.set_local_events(self.TOOL, code, ev)
        self.installed = True

    def _cb2(self, code, off):
        self.n += 1
        if self.limit is not None and self.n > self.limit:
            self.limit = None
            raise BudgetExceeded()

    def _cb3(self, code, off, dest):
        self.n += 1
        if self.limit is not None and self.n > self.limit:
            self.limit = None
            raise BudgetExceeded()

    def arm(self, limit):
        self.n = 0
        self.limit = limit

    def disarm(self):
        self.limit = None
        return self.n


_budget = None


def kio_modules(prefixes=("kio.serial", "kio.records", "kio.static")):
    """Every loaded module of the given kio sub-packages (found by name, so that a reorganisation of kio's
    private modules does not break the harness)."""
    import importlib
    import pkgutil

    out = []
    for pref in prefixes:
        try:
            pkg = importlib.import_module(pref)
        except ImportError:
            continue
        out.append(pkg)
        for info in pkgutil.iter_modules(getattr(pkg, "__path__", [])):
            try:
                out.append(importlib.import_module(f"{pref}.{info.name}"))
            except Exception:  # noqa: BLE001 - a module that does not import is somebody else's finding
                pass
    return out


def decode_budget():
    """The shared budget over kio's decoding modules (installed once per process)."""
    global _budget
    if _budget is None:
        _budget = StepBudget(kio_modules())
        _budget.install()
    return _budget
