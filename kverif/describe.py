"""describe_tree: canonical JSON description of a kio schema tree (modules, classes in order,
dataclass parameters, __slots__, class constants, per field name / canonical annotation / metadata /
default, __all__ exports, types.py, errors.py, both index maps).  Docstrings and formatting are
excluded.  Usable in-process (describe(src)) and as a script against a scratch tree:
    PYTHONPATH=<tree>/src python -m kverif.describe <tree>/src out.json"""

from __future__ import annotations

import dataclasses
import datetime
import enum
import importlib
import json
import pathlib
import sys
import types
import typing
import uuid


def ann(t):
    o = typing.get_origin(t)
    if o is types.UnionType or o is typing.Union:
        return " | ".join(sorted((ann(a) for a in typing.get_args(t)), key=lambda s: (s == "None", s)))
    if o is tuple:
        a = typing.get_args(t)
        if len(a) != 2 or a[1] is not Ellipsis:
            return f"tuple[{', '.join(ann(x) for x in a)}]"
        return f"tuple[{ann(a[0])}, ...]"
    if t is type(None):
        return "None"
    if isinstance(t, str):
        return f"str:{t}"
    if dataclasses.is_dataclass(t):
        return "@" + t.__name__
    m = getattr(t, "__module__", "?")
    if m == "kio.schema.types":
        return "types." + t.__name__ + "(" + ann(t.__mro__[1]) + ")"
    return (m + "." if m not in ("builtins", "kio.static.primitive", "kio.schema.errors") else "") + getattr(t, "__name__", repr(t))


def dflt(d):
    if d is dataclasses.MISSING:
        return ["MISSING"]
    if d is None:
        return ["None"]
    if dataclasses.is_dataclass(d):
        return ["dc", type(d).__name__, {f.name: dflt(getattr(d, f.name)) for f in dataclasses.fields(d)}]
    if isinstance(d, enum.Enum):
        return ["enum", type(d).__name__, d.name]
    if isinstance(d, bool):
        return ["bool", d]
    if isinstance(d, int):
        return ["int", int(d)]
    if isinstance(d, float):
        return ["float", repr(float(d))]
    if isinstance(d, str):
        return ["str", str(d)]
    if isinstance(d, bytes):
        return ["bytes", d.hex()]
    if isinstance(d, tuple):
        return ["tuple", [dflt(x) for x in d]]
    if isinstance(d, datetime.timedelta):
        return ["td_us", d // datetime.timedelta(microseconds=1)]
    if isinstance(d, datetime.datetime):
        return ["dt", d.isoformat()]
    if isinstance(d, uuid.UUID):
        return ["uuid", str(d)]
    return ["repr", repr(d)]


def cv_value(x):
    if isinstance(x, type):
        return x.__module__ + ":" + x.__name__
    if isinstance(x, enum.Enum):
        return x.name
    if isinstance(x, (bool, int, str)) or x is None:
        return x
    return repr(x)


CV = ("__type__", "__version__", "__flexible__", "__api_key__", "__header_schema__")


def describe_class(v):
    P = v.__dataclass_params__
    return {
        "name": v.__name__,
        "module": v.__module__,
        "params": [P.init, P.repr, P.eq, P.order, P.unsafe_hash, P.frozen],
        "slots": list(getattr(v, "__slots__", ["<no __slots__>"])),
        "has_dict": "__dict__" in dir(v) and any("__dict__" in vars(k) for k in v.__mro__[:-1]),
        "cv": {a: cv_value(vars(v)[a]) for a in CV if a in vars(v)},
        "cv_annotations": {a: ann(b) if not isinstance(b, str) else b for a, b in getattr(v, "__annotations__", {}).items() if a in CV},
        "fields": [
            {"name": f.name, "type": ann(f.type), "meta": dict(f.metadata), "default": dflt(f.default),
             "default_factory": f.default_factory is not dataclasses.MISSING, "kw_only": f.kw_only,
             "init": f.init, "repr": f.repr, "compare": f.compare, "hash": f.hash}
            for f in dataclasses.fields(v)
        ],
    }


def describe(src):
    src = pathlib.Path(src)
    import kio

    if not str(pathlib.Path(kio.__file__).resolve()).startswith(str(src.resolve())):
        raise RuntimeError(f"kio imported from {kio.__file__}, expected under {src}")
    root = src / "kio" / "schema"
    res = {"modules": {}, "exports": {}, "import_errors": {}}
    for p in sorted(root.glob("*/v*/*.py")):
        if p.name == "__init__.py":
            continue
        modname = "kio.schema." + ".".join(p.relative_to(root).with_suffix("").parts)
        try:
            m = importlib.import_module(modname)
        except Exception as e:  # noqa: BLE001
            res["import_errors"][modname] = repr(e)
            continue
        classes = []
        foreign = []
        for k, v in vars(m).items():
            if isinstance(v, type) and dataclasses.is_dataclass(v):
                if v.__module__ == modname:
                    classes.append(describe_class(v))
                elif v.__module__.startswith("kio.schema.") and not v.__module__.startswith(("kio.schema.request_header", "kio.schema.response_header")):
                    foreign.append(f"{k} from {v.__module__}")
        res["modules"][modname] = {"classes": classes}
        if foreign:
            res["modules"][modname]["foreign_dataclasses"] = sorted(foreign)
        pkg = importlib.import_module(modname.rsplit(".", 1)[0])
        res["exports"][pkg.__name__] = sorted(getattr(pkg, "__all__", ()))
    import kio.schema.types as T

    res["types"] = {k: ann(v.__mro__[1]) for k, v in vars(T).items() if isinstance(v, type) and v.__module__ == T.__name__}
    import kio.schema.errors as E

    res["errors"] = [[c.name, int(c.value), c.retriable, error_messages(E.__file__).get(c.name)] for c in E.ErrorCode]
    try:
        import kio.schema.index as I

        res["api_key_map"] = {str(k): v for k, v in I.api_key_map.items()}
        res["schema_name_map"] = {n: {str(v): {t.name: p for t, p in tm.items()} for v, tm in vm.items()} for n, vm in I.schema_name_map.items()}
    except Exception as e:  # noqa: BLE001
        res["index_error"] = repr(e)
    return res


def error_messages(path):
    """member name -> the string literal that follows its assignment in the ErrorCode class body (the generator writes
    the upstream message there)"""
    import ast

    out = {}
    tree = ast.parse(open(path).read())
    for node in ast.walk(tree):
        if isinstance(node, ast.ClassDef) and node.name == "ErrorCode":
            body = node.body
            for a, b in zip(body, body[1:]):
                if isinstance(a, ast.Assign) and len(a.targets) == 1 and isinstance(a.targets[0], ast.Name) \
                        and isinstance(b, ast.Expr) and isinstance(b.value, ast.Constant) and isinstance(b.value.value, str):
                    out[a.targets[0].id] = b.value.value
    return out


def diff(a, b, path="", out=None, limit=40):
    """List of human-readable differences between two descriptions."""
    out = [] if out is None else out
    if len(out) >= limit:
        return out
    if type(a) is not type(b):
        out.append(f"{path}: {a!r:.120} != {b!r:.120}")
    elif isinstance(a, dict):
        for k in sorted(set(a) | set(b), key=str):
            if k not in a:
                out.append(f"{path}/{k}: only in second")
            elif k not in b:
                out.append(f"{path}/{k}: only in first")
            else:
                diff(a[k], b[k], f"{path}/{k}", out, limit)
            if len(out) >= limit:
                break
    elif isinstance(a, list):
        if len(a) != len(b):
            names = lambda L: [x.get("name") if isinstance(x, dict) else x for x in L]  # noqa: E731
            out.append(f"{path}: length {len(a)} != {len(b)}: {names(a)!r:.200} vs {names(b)!r:.200}")
        else:
            for i, (x, y) in enumerate(zip(a, b)):
                label = x.get("name", i) if isinstance(x, dict) else i
                diff(x, y, f"{path}[{label}]", out, limit)
    elif a != b:
        out.append(f"{path}: {a!r:.120} != {b!r:.120}")
    return out


if __name__ == "__main__":
    d = describe(sys.argv[1])
    json.dump(d, open(sys.argv[2], "w"), indent=0, sort_keys=True)
    print("modules", len(d["modules"]), "classes", sum(len(m["classes"]) for m in d["modules"].values()),
          "import_errors", len(d["import_errors"]))
