"""Ground-truth anchors for KRef: byte vectors assembled by hand from the Kafka protocol guide
(field tables of 3.9.0) and KIP-482.  They are checked against KRef (encode and decode) before any
verdict of C02/C03/C05/C10 is given; a disagreement is a HARNESS-ERROR, never a violation.  Each
vector is (class path, wire value, hex)."""

from __future__ import annotations

from . import bridge, refcodec
from .core import HarnessError
from .schema_walk import load_class, wire_schema

U1 = bytes(range(1, 17))

VECTORS = [
    # RequestHeader v1: api_key int16, api_version int16, correlation_id int32, client_id nullable string (int16 len)
    ("kio.schema.request_header.v1.header:RequestHeader",
     {"request_api_key": 18, "request_api_version": 0, "correlation_id": 1, "client_id": "kio"},
     "0012" "0000" "00000001" "0003" "6b696f"),
    ("kio.schema.request_header.v1.header:RequestHeader",
     {"request_api_key": 3, "request_api_version": 5, "correlation_id": -2, "client_id": None},
     "0003" "0005" "fffffffe" "ffff"),
    # RequestHeader v2 is flexible, but client_id stays a legacy (int16-prefixed) nullable string;
    # followed by the (empty) tagged section
    ("kio.schema.request_header.v2.header:RequestHeader",
     {"request_api_key": 18, "request_api_version": 3, "correlation_id": 7, "client_id": "ab"},
     "0012" "0003" "00000007" "0002" "6162" "00"),
    ("kio.schema.request_header.v2.header:RequestHeader",
     {"request_api_key": 1, "request_api_version": 15, "correlation_id": 2**31 - 1, "client_id": None},
     "0001" "000f" "7fffffff" "ffff" "00"),
    # ResponseHeader v0 / v1
    ("kio.schema.response_header.v0.header:ResponseHeader", {"correlation_id": 258}, "00000102"),
    ("kio.schema.response_header.v1.header:ResponseHeader", {"correlation_id": 258}, "00000102" "00"),
    # ApiVersionsRequest v3: two compact strings (uvarint len+1) + empty tagged section
    ("kio.schema.api_versions.v3.request:ApiVersionsRequest",
     {"client_software_name": "kio", "client_software_version": "1"},
     "04" "6b696f" "02" "31" "00"),
    # compact string of 127 bytes needs a two-byte length prefix: 128 = 0x80 0x01
    ("kio.schema.api_versions.v3.request:ApiVersionsRequest",
     {"client_software_name": "a" * 127, "client_software_version": ""},
     "8001" + "61" * 127 + "01" "00"),
    # MetadataRequest v12: nullable compact array of structs {uuid, nullable compact string, tags},
    # bool, bool, tags
    ("kio.schema.metadata.v12.request:MetadataRequest",
     {"topics": None, "allow_auto_topic_creation": True, "include_topic_authorized_operations": False},
     "00" "01" "00" "00"),
    ("kio.schema.metadata.v12.request:MetadataRequest",
     {"topics": [{"topic_id": None, "name": "t"}, {"topic_id": U1, "name": None}],
      "allow_auto_topic_creation": False, "include_topic_authorized_operations": True},
     "03" + "00" * 16 + "02" "74" "00" + U1.hex() + "00" "00" + "00" "01" "00"),
    # MetadataRequest v0 (legacy): int32 array length, int16 string length
    ("kio.schema.metadata.v0.request:MetadataRequest",
     {"topics": [{"name": "ab"}]}, "00000001" "0002" "6162"),
    # FetchRequest v15: tagged cluster_id (tag 0, nullable compact string, default null) and
    # replica_state (tag 1, struct {int32 replica_id=-1, int64 replica_epoch=-1, tags}); untagged:
    # max_wait int32 ms, min_bytes int32, max_bytes int32, isolation_level int8, session_id int32,
    # session_epoch int32, topics compact array, forgotten_topics_data compact array, rack_id
    # compact string; tagged section last.
    ("kio.schema.fetch.v15.request:FetchRequest",
     {"cluster_id": None, "replica_state": {"replica_id": -1, "replica_epoch": -1},
      "max_wait": 500, "min_bytes": 1, "max_bytes": 2**31 - 1, "isolation_level": 0,
      "session_id": 0, "session_epoch": -1, "topics": [], "forgotten_topics_data": [],
      "rack_id": ""},
     "000001f4" "00000001" "7fffffff" "00" "00000000" "ffffffff" "01" "01" "01" "00"),
    ("kio.schema.fetch.v15.request:FetchRequest",
     {"cluster_id": "c", "replica_state": {"replica_id": 2, "replica_epoch": 3},
      "max_wait": 0, "min_bytes": 0, "max_bytes": 0, "isolation_level": 1,
      "session_id": 0, "session_epoch": 0,
      "topics": [{"topic_id": U1, "partitions": [
          {"partition": 1, "current_leader_epoch": -1, "fetch_offset": 2, "last_fetched_epoch": -1,
           "log_start_offset": -1, "partition_max_bytes": 3}]}],
      "forgotten_topics_data": [], "rack_id": "r"},
     "00000000" "00000000" "00000000" "01" "00000000" "00000000"
     "02" + U1.hex() + "02" "00000001" "ffffffff" "0000000000000002" "ffffffff" "ffffffffffffffff"
     "00000003" "00" "00"
     "01" "02" "72"
     # tagged section: 2 fields; tag 0 size 2 payload (02 'c'); tag 1 size 13 payload
     "02" "00" "02" "02" "63" "01" "0d" "00000002" "0000000000000003" "00"),
    # CreateDelegationTokenResponse v0: error int16, 2 legacy strings, 3 int64 ms timestamps,
    # legacy string, legacy bytes (int32 len), int32 throttle
    ("kio.schema.create_delegation_token.v0.response:CreateDelegationTokenResponse",
     {"error_code": 0, "principal_type": "U", "principal_name": "", "issue_timestamp": 1001,
      "expiry_timestamp": 1700000000123, "max_timestamp": 0, "token_id": "i", "hmac": b"\x01\x02",
      "throttle_time": 5},
     "0000" "0001" "55" "0000" "00000000000003e9" "0000018bcfe5687b" "0000000000000000" "0001" "69"
     "00000002" "0102" "00000005"),
]

UNKNOWN_TAG_VECTORS = [
    # ResponseHeader v1 followed by one unknown tagged field (tag 5, 3 bytes): decoders must skip it
    ("kio.schema.response_header.v1.header:ResponseHeader",
     {"correlation_id": 9, "__x__": {"unknown": [[5, b"\xaa\xbb\xcc"]]}},
     "00000009" "01" "05" "03" "aabbcc"),
]


def verify():
    n = 0
    for path, w, hx in VECTORS + UNKNOWN_TAG_VECTORS:
        ws = wire_schema(load_class(path))
        want = bytes.fromhex(hx)
        got = bytes(refcodec.encode(ws, w, bridge.wire_default).buf)
        if got != want:
            raise HarnessError(f"KRef.encode disagrees with hand vector for {path}: {got.hex()} != {hx}")
        src = refcodec.Src(want)
        back = refcodec.decode(ws, src, bridge.wire_default)
        if not bridge.same_wire(back, bridge.strip_x(w)) or src.pos != len(want):
            raise HarnessError(f"KRef.decode disagrees with hand vector for {path}")
        n += 1
    return n
