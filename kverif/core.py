"""Run context shared by all checks: evidence, violations, replay files, known findings,
worker pool.  Nothing in here knows about kio."""

from __future__ import annotations

import hashlib
import json
import multiprocessing as mp
import os
import random
import subprocess
import sys
import time
import traceback

ROOT = os.path.dirname(os.path.dirname(os.path.abspath(__file__)))
REPO = os.environ.get("KVERIF_REPO", "/repo")
EVIDENCE_DIR = os.environ.get("KVERIF_EVIDENCE_DIR") or os.path.join(ROOT, "evidence")
REPLAY_DIR = os.environ.get("KVERIF_REPLAY_DIR") or os.path.join(ROOT, "replays")
KNOWN_FINDINGS = os.path.join(ROOT, "known_findings.jsonl")

NCPU = min(16, os.cpu_count() or 1)


class HarnessError(Exception):
    """The machinery itself misbehaved (model self-check, divergent replay, watchdog)."""


# ---------------------------------------------------------------------------------------
# tagged JSON for wire values / cases (bytes, floats with payloads, tuples)
# ---------------------------------------------------------------------------------------
def to_json(v):
    import struct

    if isinstance(v, bool) or v is None or isinstance(v, str):
        return v
    if isinstance(v, int):
        return v if -(2**53) < v < 2**53 else {"$i": str(v)}
    if isinstance(v, float):
        return {"$f": struct.pack(">d", v).hex()}
    if isinstance(v, (bytes, bytearray, memoryview)):
        b = bytes(v)
        if len(b) > 64 and len(set(b)) == 1:
            return {"$rep": b[:1].hex(), "n": len(b)}
        return {"$b": b.hex()}
    if isinstance(v, (list, tuple)):
        return [to_json(x) for x in v]
    if isinstance(v, dict):
        return {str(k): to_json(x) for k, x in v.items()}
    if isinstance(v, (set, frozenset)):
        return {"$set": sorted(to_json(x) for x in v)}
    return {"$repr": repr(v)}


def from_json(v):
    import struct

    if isinstance(v, list):
        return [from_json(x) for x in v]
    if isinstance(v, dict):
        if "$i" in v:
            return int(v["$i"])
        if "$f" in v:
            return struct.unpack(">d", bytes.fromhex(v["$f"]))[0]
        if "$b" in v:
            return bytes.fromhex(v["$b"])
        if "$rep" in v:
            return bytes.fromhex(v["$rep"]) * v["n"]
        if "$set" in v:
            return set(from_json(x) for x in v["$set"])
        return {k: from_json(x) for k, x in v.items()}
    return v


def short(v, limit=240):
    """Compact human-readable form of a case for samples."""
    s = json.dumps(shrink(to_json(v)), sort_keys=True, ensure_ascii=True)
    return s if len(s) <= limit else s[: limit - 3] + "..."


def shrink(j):
    """Abbreviate long strings inside an already-JSON value (samples only)."""
    if isinstance(j, str) and len(j) > 40:
        return f"{j[:8]}...<{len(j)} chars>"
    if isinstance(j, list):
        return [shrink(x) for x in j]
    if isinstance(j, dict):
        if "$b" in j and len(j["$b"]) > 80:
            return {"$b": j["$b"][:16] + "...", "n": len(j["$b"]) // 2}
        return {k: shrink(x) for k, x in j.items()}
    return j


# ---------------------------------------------------------------------------------------
# violations
# ---------------------------------------------------------------------------------------
def violation(prop, part, signature, cls, case, expected, observed, order=0):
    """A violation record.  `signature` groups equivalent failures; `order` makes the
    representative of a group deterministic (smallest first)."""
    return {
        "property": prop,
        "part": part,
        "signature": signature,
        "class": cls,
        "case": to_json(case),
        "expected": expected if isinstance(expected, str) else short(expected, 2000),
        "observed": observed if isinstance(observed, str) else short(observed, 2000),
        "order": order,
    }


def ordkey(o):
    """Total order over the heterogeneous `order` values of violation records (ints before strings)."""
    if not isinstance(o, (list, tuple)):
        o = (o,)
    out = []
    for x in o:
        if isinstance(x, (list, tuple)):
            out.extend(ordkey(x))
        elif isinstance(x, (int, float)) and not isinstance(x, bool):
            out.append((0, x, ""))
        else:
            out.append((1, 0, str(x)))
    return tuple(out)


def exc_name(e: BaseException) -> str:
    return type(e).__name__


def load_known_findings(prop):
    out = []
    if os.path.exists(KNOWN_FINDINGS):
        for line in open(KNOWN_FINDINGS):
            line = line.strip()
            if not line or line.startswith("#"):
                continue
            rec = json.loads(line)
            if rec.get("property") == prop and rec.get("status") == "open":
                out.append(rec)
    return out


def finding_matches(rec, v):
    m = rec.get("match", {})
    if "signature" in m and m["signature"] != v["signature"]:
        return False
    if "part" in m and m["part"] != v["part"]:
        return False
    if "class_prefix" in m and not str(v["class"]).startswith(m["class_prefix"]):
        return False
    if "classes" in m and v["class"] not in m["classes"]:
        return False
    return True


class Run:
    def __init__(self, prop, tier, level, seed=None):
        self.prop = prop
        self.tier = tier
        self.level = level
        self.seed = int(os.environ.get("VERIF_SEED", "0") or 0) if seed is None else seed
        self.rng = random.Random(self.seed)
        self.t0 = time.time()
        self.cov = {
            "evaluations": 0,
            "distinct_nontrivial": 0,
            "rule": "",
            "samples": [],
            "exhaustive": False,
        }
        self.violations = []  # all violation records (capped per signature)
        self.sig_counts = {}
        self.assumptions = []
        self.notes = {}
        self.caps = []
        self.outcomes = {}

    # -- coverage bookkeeping ----------------------------------------------------------
    def add(self, key, n=1):
        self.cov[key] = self.cov.get(key, 0) + n

    def outcome(self, name, n=1):
        self.outcomes[name] = self.outcomes.get(name, 0) + n

    def sample(self, s):
        self.cov["samples"].append(s)

    def cap(self, text):
        if text not in self.caps:
            self.caps.append(text)

    def report(self, v):
        sig = v["signature"]
        self.sig_counts[sig] = self.sig_counts.get(sig, 0) + v.get("count", 1)
        cur = [x for x in self.violations if x["signature"] == sig]
        if not cur:
            self.violations.append(v)
        elif (ordkey(v["order"]), json.dumps(v["case"], sort_keys=True)) < (
            ordkey(cur[0]["order"]),
            json.dumps(cur[0]["case"], sort_keys=True),
        ):
            self.violations.remove(cur[0])
            self.violations.append(v)

    def merge(self, part):
        """Merge a worker result: {'cov': {...ints}, 'violations': [...], 'samples': [...],
        'outcomes': {...}, 'sig_counts': {...}}"""
        for k, n in part.get("cov", {}).items():
            self.add(k, n)
        for k, n in part.get("outcomes", {}).items():
            self.outcome(k, n)
        for v in part.get("violations", []):
            c = part.get("sig_counts", {}).get(v["signature"], 1)
            v = dict(v)
            v["count"] = c
            self.report(v)
        for c in part.get("caps", []):
            self.cap(c)
        self._pending_samples = getattr(self, "_pending_samples", [])
        self._pending_samples.extend(part.get("samples", []))

    # -- finishing ---------------------------------------------------------------------
    def finish(self):
        pend = getattr(self, "_pending_samples", [])
        if pend:
            pend = sorted(pend, key=lambda s: json.dumps(s, sort_keys=True, default=str))
            self.rng.shuffle(pend)
            self.cov["samples"].extend(pend[:8])
        if not self.cov["samples"]:
            self.cov["samples"] = ["(no sample recorded)"]
        known = load_known_findings(self.prop)
        real, matched = [], {}
        for v in sorted(self.violations, key=lambda v: v["signature"]):
            hit = next((k for k in known if finding_matches(k, v)), None)
            if hit is not None:
                matched.setdefault(hit["id"], (hit, []))[1].append(v)
            else:
                real.append(v)
        lines = []
        for fid, (hit, vs) in sorted(matched.items()):
            n = sum(self.sig_counts.get(v["signature"], 1) for v in vs)
            lines.append(
                f"KNOWN-FINDING: property={self.prop} {fid}: {hit['what']} "
                f"({n} matching cases this run, e.g. class={vs[0]['class']})"
            )
        for v in real:
            path = write_replay(v)
            lines.append(f"VIOLATION property={self.prop} replay={path}")
            lines.append(
                f"  signature={v['signature']} count={self.sig_counts.get(v['signature'], 1)} "
                f"class={v['class']}\n  expected: {v['expected'][:300]}\n  observed: {v['observed'][:300]}"
            )
        wall = time.time() - self.t0
        self.cov["caps_hit"] = self.caps
        self.cov["outcomes"] = dict(sorted(self.outcomes.items()))
        self.cov["distinct_outcomes"] = len(self.outcomes)
        self.cov.update(self.notes)
        ev = {
            "property_id": self.prop,
            "tier": self.tier,
            "seed": self.seed,
            "level": self.level,
            "coverage": self.cov,
            "assumptions": self.assumptions,
            "wall_s": round(wall, 3),
            "violations": len(real),
            "known_findings_matched": sorted(matched),
            "violation_signatures": {
                v["signature"]: self.sig_counts.get(v["signature"], 1) for v in real
            },
            "repo_head": repo_head(),
        }
        os.makedirs(EVIDENCE_DIR, exist_ok=True)
        path = os.path.join(EVIDENCE_DIR, f"{self.prop}.json")
        tmp = path + ".tmp"
        with open(tmp, "w") as f:
            json.dump(ev, f, indent=1, sort_keys=True, default=str)
            f.write("\n")
        os.replace(tmp, path)
        for line in lines:
            print(line)
        if not real:
            # a run that found nothing must not be vacuous; a run that reports violations is never turned into a
            # harness error by its counters (a violation at the first case of every instance leaves them small)
            check_evidence_shape(ev)
        c = self.cov
        print(
            f"{self.prop} tier={self.tier} seed={self.seed} evaluations={c.get('evaluations')} "
            f"distinct_nontrivial={c.get('distinct_nontrivial')} states={c.get('states')} "
            f"transitions={c.get('transitions')} exhaustive={c.get('exhaustive')} "
            f"outcomes={len(self.outcomes)} violations={len(real)} known={len(matched)} "
            f"wall={wall:.1f}s"
        )
        return 1 if real else 0


def check_evidence_shape(ev):
    """Built-in required-keys check (the /venv interpreter has no jsonschema)."""
    for k in ("property_id", "tier", "seed", "level", "coverage", "wall_s"):
        if k not in ev:
            raise HarnessError(f"evidence lacks {k}")
    c = ev["coverage"]
    if ev["level"] in ("exploration", "fault_enumeration"):
        need = ("evaluations", "distinct_nontrivial", "rule", "samples")
    elif ev["level"] == "model_checking":
        need = ("states", "transitions", "traces_validated_against_impl", "samples")
    else:
        need = ("evaluations", "distinct_nontrivial")
    for k in need:
        if k not in c:
            raise HarnessError(f"evidence coverage lacks {k}")
    if not c["samples"]:
        raise HarnessError("evidence has no samples")
    if ev["level"] in ("exploration", "fault_enumeration") and (
        c["evaluations"] < 1 or c["distinct_nontrivial"] < 2
    ):
        raise HarnessError("evidence counts too small: vacuous run")
    if ev["level"] == "model_checking" and (c["states"] < 1 or c["transitions"] < 1):
        raise HarnessError("evidence counts too small: vacuous run")


_head = None


def repo_head():
    global _head
    if _head is None:
        try:
            h = subprocess.run(
                ["git", "-C", REPO, "rev-parse", "--short", "HEAD"],
                capture_output=True,
                text=True,
                timeout=20,
            ).stdout.strip()
            d = subprocess.run(
                ["git", "-C", REPO, "status", "--porcelain", "--untracked-files=no"],
                capture_output=True,
                text=True,
                timeout=60,
            ).stdout.strip()
            _head = h + ("+dirty" if d else "")
        except Exception:
            _head = "unknown"
    return _head


def write_replay(v):
    d = os.path.join(REPLAY_DIR, v["property"])
    os.makedirs(d, exist_ok=True)
    body = {k: v[k] for k in ("property", "part", "signature", "class", "case", "expected", "observed")}
    h = hashlib.sha1(json.dumps(body, sort_keys=True).encode()).hexdigest()[:12]
    path = os.path.join(d, f"{h}.json")
    with open(path, "w") as f:
        json.dump(body, f, indent=1, sort_keys=True)
        f.write("\n")
    # a plain unit test that replays this single case without the explorer: pytest <file>
    with open(os.path.join(d, f"{h}_test.py"), "w") as f:
        f.write(
            f'"""Replays the recorded {v["property"]} case {h} on the real code, without the explorer."""\n'
            "import sys\n\n"
            f"sys.path.insert(0, {ROOT!r})\n\n\n"
            "def test_replay():\n"
            "    from kverif.__main__ import main\n\n"
            f"    assert main([{v['property']!r}, '--replay', {path!r}]) == 0, 'the recorded violation reproduces'\n"
        )
    return path


# ---------------------------------------------------------------------------------------
# worker pool: fork once from a parent that has everything imported
# ---------------------------------------------------------------------------------------
_WORK = None


class LibraryRaised(HarnessError):
    """An exception nobody in the harness expected came out of the library under test (innermost frame in kio or
    codegen) while the harness was calling it with in-domain arguments: on the unchanged tree that never happens,
    so it is reported as a violation of the property being checked, not as a harness error."""

    def __init__(self, exc_name, text):
        super().__init__(text)
        self.exc_name, self.text = exc_name, text


def raised_in_library(tb):
    """Is the innermost frame of this traceback in the library under test?"""
    if tb is None:
        return False
    while tb.tb_next is not None:
        tb = tb.tb_next
    fn = os.path.realpath(tb.tb_frame.f_code.co_filename)
    roots = [os.path.realpath(os.path.join(REPO, "src", "kio")), os.path.realpath(os.path.join(REPO, "codegen"))]
    try:
        import kio

        roots.append(os.path.realpath(os.path.dirname(kio.__file__)))
    except Exception:  # noqa: BLE001
        pass
    return any(fn.startswith(r + os.sep) for r in roots)


def _call(i):
    fn, items = _WORK
    try:
        return ("ok", i, fn(items[i]))
    except HarnessError as e:
        return ("err", i, f"{type(e).__name__}: {e}\n{traceback.format_exc()}")
    except BaseException as e:  # noqa: BLE001 - report, never hang the pool
        text = f"{type(e).__name__}: {e}\n{traceback.format_exc()}"
        if isinstance(e, Exception) and raised_in_library(e.__traceback__):
            return ("lib", i, (type(e).__name__, text))
        return ("err", i, text)


def _init_worker(mem_gb):
    if mem_gb:
        import resource

        lim = int(mem_gb * (1 << 30))
        try:
            resource.setrlimit(resource.RLIMIT_AS, (lim, lim))
        except (ValueError, OSError):
            pass
    sys.setrecursionlimit(1000)


def pmap(fn, items, procs=None, mem_gb=6, chunksize=1):
    """Run fn(item) for every item in forked workers; yields results in completion order.
    A worker exception is a HarnessError (checks catch what they judge themselves)."""
    global _WORK
    items = list(items)
    procs = max(1, min(procs or NCPU, len(items)))
    _WORK = (fn, items)
    if procs == 1 or os.environ.get("KVERIF_SERIAL"):
        for i in range(len(items)):
            st, _, res = _call(i)
            if st == "lib":
                raise LibraryRaised(*res)
            if st == "err":
                raise HarnessError(res)
            yield res
        return
    ctx = mp.get_context("fork")
    with ctx.Pool(procs, initializer=_init_worker, initargs=(mem_gb,)) as pool:
        for st, _, res in pool.imap_unordered(_call, range(len(items)), chunksize=chunksize):
            if st == "lib":
                pool.terminate()
                raise LibraryRaised(*res)
            if st == "err":
                pool.terminate()
                raise HarnessError(res)
            yield res


def chunks(seq, n):
    seq = list(seq)
    return [seq[i : i + n] for i in range(0, len(seq), n)]


class Acc:
    """Per-worker accumulator with the shape Run.merge expects."""

    def __init__(self, max_samples=4):
        self.cov = {}
        self.violations = {}
        self.sig_counts = {}
        self.samples = []
        self.outcomes = {}
        self.caps = []
        self.max_samples = max_samples

    def add(self, k, n=1):
        self.cov[k] = self.cov.get(k, 0) + n

    def outcome(self, k, n=1):
        self.outcomes[k] = self.outcomes.get(k, 0) + n

    def sample(self, s):
        if len(self.samples) < self.max_samples:
            self.samples.append(s)

    def report(self, v):
        sig = v["signature"]
        self.sig_counts[sig] = self.sig_counts.get(sig, 0) + 1
        cur = self.violations.get(sig)
        if cur is None or ordkey(v["order"]) < ordkey(cur["order"]):
            self.violations[sig] = v

    def result(self):
        return {
            "cov": self.cov,
            "violations": list(self.violations.values()),
            "sig_counts": self.sig_counts,
            "samples": self.samples,
            "outcomes": self.outcomes,
            "caps": self.caps,
        }
