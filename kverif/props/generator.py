"""C04 - the shipped schema is exactly what the current generator derives from the pinned
definitions (three independent pins), exhaustively over all modules / classes / fields."""

from __future__ import annotations

import gzip
import json
import os

from .. import describe, gen_scratch, reconstruct
from ..core import REPO, ROOT, Acc, HarnessError, Run, chunks, pmap, violation


def classify(d):
    """Group a description difference by what kind of thing differs (for the signature)."""
    import re

    m = re.match(r"/modules/([^/\[]+)", d)
    if "/fields" in d:
        for k in ("type", "meta", "default", "kw_only", "name"):
            if f"]/{k}" in d:
                return f"field-{k}"
        return "field-list"
    if "/cv/" in d:
        return "class-constant/" + d.split("/cv/")[1].split(":")[0].strip("_")
    if "/params" in d or "/slots" in d or "has_dict" in d:
        return "dataclass-options"
    if "/classes" in d:
        return "class-list"
    if d.startswith("/errors"):
        return "error-codes"
    if d.startswith("/schema_name_map") or d.startswith("/api_key_map"):
        return "index-maps"
    if d.startswith("/exports"):
        return "exports"
    if d.startswith("/types"):
        return "custom-types"
    if d.startswith("/import_errors"):
        return "module-does-not-import"
    if m:
        return "module-set"
    return "other"


def compare(acc, a, b, part, what_a, what_b):
    """Report every kind of difference between two descriptions (one violation per kind)."""
    diffs = describe.diff(a, b, limit=400)
    for d in diffs:
        kind = classify(d)
        mod = d.split("/")[2].split("[")[0] if d.startswith("/modules/") else d.split("/")[1].split(":")[0]
        acc.report(violation("C04", part, f"C04/{part}/{kind}", mod, {"difference": d, "first": what_a, "second": what_b},
                             f"{what_a} == {what_b}", d[:600], (kind, d)))
    return len(diffs)


def count_things(d):
    mods = d["modules"]
    return {"modules": len(mods), "classes": sum(len(m["classes"]) for m in mods.values()),
            "fields": sum(len(c["fields"]) for m in mods.values() for c in m["classes"]),
            "error_codes": len(d["errors"]), "index_entries": sum(len(tm) for vm in d.get("schema_name_map", {}).values() for tm in vm.values())}


def _regen_without(name):
    """thorough: the generator has no cross-definition state leaking into output: regenerate with one
    definition removed; the rest of the description must be unchanged."""
    defs, err = gen_scratch.pinned_definitions()
    fam = json.loads("\n".join(l for l in defs[name].splitlines() if not l.lstrip().startswith("//")))
    del defs[name]
    with gen_scratch.Scratch(defs, err) as s:
        rc, out = s.generate()
        if rc != 0:
            return name, None, out[-800:]
        d, errtxt = s.describe()
        return name, d, errtxt


def run_c04(tier):
    run = Run("C04", tier, "exploration")
    acc = Acc(max_samples=4)
    cur = describe.describe(os.path.join(REPO, "src"))
    counts = count_things(cur)
    acc.add("evaluations", counts["modules"] + counts["classes"] + counts["fields"] + counts["error_codes"] + counts["index_entries"])
    for modname, e in cur["import_errors"].items():
        acc.report(violation("C04", "import", "C04/import/module-does-not-import", modname, {"module": modname}, "every kio.schema.<api>.v<N>.<type> imports", e[:300], (modname,)))
    # pin 1: the current generator on the pinned definitions
    defs, err = gen_scratch.pinned_definitions()
    with gen_scratch.Scratch(defs, err) as s:
        rc, out = s.generate()
        if rc != 0:
            acc.report(violation("C04", "generator", "C04/generator/failed-on-pinned-definitions", "codegen", {"returncode": rc},
                                 "python -m codegen succeeds on the 186 pinned definitions", out[-1500:], (0,)))
            gen = None
        else:
            gen, errtxt = s.describe()
            if gen is None:
                acc.report(violation("C04", "generator", "C04/generator/output-does-not-import", "codegen", {}, "generated package imports", errtxt[-1500:], (0,)))
    if gen is not None:
        run.notes["generated_tree"] = count_things(gen)
        for modname, e in gen["import_errors"].items():
            acc.report(violation("C04", "generator", "C04/generator/generated-module-does-not-import", modname, {"module": modname}, "imports", e[:300], (modname,)))
        n = compare(acc, gen, cur, "generator-vs-shipped", "generator(pinned definitions)", "shipped tree")
        acc.add("disagreements_checked", n)
        acc.outcome("generator output == shipped tree" if n == 0 else "generator output != shipped tree")
    # pin 2: the canonical description of the baseline tree
    with gzip.open(os.path.join(ROOT, "pins", "schema-3.9.0.describe.json.gz"), "rt") as f:
        base = json.load(f)
    n = compare(acc, base, cur, "baseline-vs-shipped", "baseline description (pin)", "shipped tree")
    acc.outcome("baseline pin == shipped tree" if n == 0 else "baseline pin != shipped tree")
    # pin 1b: the tree is still regular and reconstructs to the committed definitions
    try:
        rec = reconstruct.reconstruct(cur)
        committed = {k: json.loads("\n".join(l for l in v.splitlines() if not l.lstrip().startswith("//"))) for k, v in defs.items()}
        if rec != committed:
            ks = sorted(k for k in set(rec) | set(committed) if rec.get(k) != committed.get(k))
            acc.report(violation("C04", "reconstruct", "C04/reconstruct/tree-no-longer-reconstructs-to-pinned-definitions", ks[0], {"definitions": ks[:5]},
                                 "reconstruct(shipped tree) == pins/definitions-3.9.0", f"{len(ks)} definitions differ: {ks[:5]}", (0,)))
        else:
            acc.outcome("reconstruct(shipped tree) == pinned definitions")
        if reconstruct.error_codes_text(cur) != err:
            acc.report(violation("C04", "reconstruct", "C04/reconstruct/error-codes-differ-from-pin", "errors", {}, "pinned error codes", "differ", (0,)))
    except (ImportError, AttributeError) as e:
        # the inverse generator borrows codegen's naming tables; if a refactoring moved them this sub-check is
        # skipped (the generator-vs-shipped and baseline comparisons above do not depend on it)
        run.notes["reconstruct_subcheck"] = f"skipped: {e!r}"[:200]
    except reconstruct.Irregular as e:
        acc.report(violation("C04", "reconstruct", "C04/reconstruct/tree-not-regular", str(e).split(":")[0], {"why": str(e)},
                             "every (API, type) family is expressible as one message definition", str(e)[:400], (0,)))
    acc.add("programs", len(defs))
    acc.sample({"definition": "FetchRequest.json", "versions": "0-17", "checked": "every class/field/default/metadata/class constant of every version"})
    acc.sample(counts)
    run.merge(acc.result())
    if tier == "thorough" and gen is not None:
        names = sorted(defs)
        # generate_index asserts Metadata v11 exists and kio.static.protocol imports the header modules, so
        # those four definitions cannot be removed without the generator (legitimately) failing
        names = [n for n in names if not n.startswith("Metadata") and n not in ("RequestHeader.json", "ResponseHeader.json")]
        for name, d, errtxt in pmap(_regen_without, names, procs=8):
            run.add("evaluations")
            run.add("regenerations_with_one_definition_removed")
            if d is None:
                run.report(violation("C04", "isolation", "C04/isolation/generator-failed-with-one-definition-removed", name, {"removed": name}, "succeeds", errtxt[-600:], (name,)))
                continue
            fam = json.loads("\n".join(l for l in defs[name].splitlines() if not l.lstrip().startswith("//")))
            import re

            exp = {k: v for k, v in gen["modules"].items()}
            gone = [k for k in exp if k not in d["modules"]]
            same = all(d["modules"].get(k) == v for k, v in exp.items() if k not in gone)
            typ = fam["type"]
            if not same or any(not g.endswith("." + typ) for g in gone) or len(gone) != len(range(*map(int, (fam["validVersions"].split("-")[0], int(fam["validVersions"].split("-")[-1]) + 1)))):
                run.report(violation("C04", "isolation", "C04/isolation/output-depends-on-other-definitions", name, {"removed": name},
                                     "removing one definition removes exactly its modules and changes nothing else",
                                     f"{len(gone)} modules gone, others unchanged={same}", (name,)))
    c = run.cov
    c.update(counts)
    c["distinct_nontrivial"] = counts["classes"] + counts["fields"]
    c["rule"] = ("all version modules, classes, fields, defaults, metadata, class constants, dataclass options, exports, custom types, error "
                 "codes and both index maps of the shipped package compared (canonical description, docstrings/formatting excluded) with "
                 "(1) the output of the CURRENT generator run on the 186 pinned definitions in a scratch tree, (2) the pinned description of "
                 "the baseline tree; plus (1b) reconstruct(shipped tree) == pinned definitions (regularity), every module imports"
                 + ("; thorough: regeneration with each single definition removed changes nothing else" if tier == "thorough" else ""))
    c["exhaustive"] = True
    run.assumptions += [
        "the upstream 3.9.0 JSON files are not available offline; pins/definitions-3.9.0 are reconstructed from the baseline tree (the real "
        "generator reproduces the baseline tree from them exactly) - fidelity to the true upstream files beyond that is not claimed",
    ]
    return run.finish()


def crash_in_library(text):
    """Does the traceback in this captured output end in the generator or in kio (and not in harness code)?"""
    files = [l.strip() for l in text.splitlines() if l.strip().startswith('File "')]
    if not files:
        return False
    last = files[-1]
    return ("/codegen/" in last or "/src/kio/" in last) and "/verif/" not in last


def replay(prop, path):
    if prop == "C04":
        print("replay of C04 re-runs the whole comparison (exhaustive, ~20 s)")
        return run_c04("quick")
    from ..core import from_json

    rec = json.load(open(path))
    case = from_json(rec["case"])
    defn = case.get("definition")
    if defn is None:
        print("this C16 case is not tied to one definition; re-running the quick sweep")
        return run_c16("quick")
    res = _batch((0, [(rec["class"], defn)], 1, True))
    if "crash" in res:
        raise HarnessError(res["crash"])
    hits = [v for v in res["violations"] if v["class"] == rec["class"]]
    if rec["class"] in res.get("rejected", {}):
        print(f"the generator rejects this definition now: {res['rejected'][rec['class']]}")
    if hits:
        v = next((h for h in hits if h["signature"] == rec["signature"]), hits[0])
        print(f"VIOLATION property=C16 replay={path}")
        print(f"  signature={v['signature']}\n  expected: {v['expected'][:400]}\n  observed: {v['observed'][:400]}")
        return 1
    print(f"replay {path}: no violation on the current tree")
    return 0


# ---------------------------------------------------------------------------------------
# C16
# ---------------------------------------------------------------------------------------
ESSENTIAL = ("RequestHeader.json", "ResponseHeader.json", "MetadataRequest.json", "MetadataResponse.json")
UNSUPPORTED_PIN = os.path.join(ROOT, "pins", "c16_unsupported.json")


def def_key(defn):
    import hashlib

    d = {k: v for k, v in defn.items() if k not in ("name", "apiKey")}
    if defn.get("apiKey") in (7, 18):
        d["apiKey"] = defn["apiKey"]
    return hashlib.sha1(json.dumps(d, sort_keys=True).encode()).hexdigest()[:16]


def _load_def(text):
    from .. import defspec

    return json.loads(defspec.strip_comments(text))


def _batch(arg):
    offset, items, k, with_essentials = arg
    pdefs, err = gen_scratch.pinned_definitions()
    defs = {}
    spec_items = []
    if with_essentials:
        for e in ESSENTIAL:
            defs[e] = pdefs[e]
            spec_items.append((e, _load_def(pdefs[e])))
    for fname, defn in items:
        defs[fname] = json.dumps(defn, indent=1)
        spec_items.append((fname, defn))
    with gen_scratch.Scratch(defs, err) as s:
        rc, rejected, idx, out = s.generate_one_by_one()
        res = {"cov": {}, "violations": [], "sig_counts": {}, "samples": [], "outcomes": {}, "caps": []}
        if rc != 0:
            return {"crash": f"generator driver failed for batch at {offset}: {out[-1500:]}", "rejected": rejected}
        spec = {"definitions": spec_items, "rejected": rejected, "k": k, "offset": offset}
        sp, op = os.path.join(s.path, "spec.json"), os.path.join(s.path, "result.json")
        json.dump(spec, open(sp, "w"))
        rc, out = s.run_module("kverif.gen_verify", [sp, op])
        if rc != 0 or not os.path.exists(op):
            return {"crash": f"verifier failed for batch at {offset}: {out[-2500:]}", "rejected": rejected}
        res = json.load(open(op))
        res["rejected"] = rejected
        res["index_status"] = idx
        return res


def run_c16(tier):
    from .. import defgen

    run = Run("C16", tier, "exploration")
    grammar = defgen.quick() if tier == "quick" else defgen.thorough()
    # distinct sentences only
    seen, items = set(), []
    for d in grammar:
        key = def_key(d)
        if key in seen:
            continue
        seen.add(key)
        items.append((f"{d['name']}.json", d))
    run.notes["grammar_sentences"] = len(items)
    pdefs, err = gen_scratch.pinned_definitions()
    real = [(fn, _load_def(t)) for fn, t in sorted(pdefs.items())]
    size = 300
    tasks = [(1000 * (i // size + 1), items[i : i + size], 1, True) for i in range(0, len(items), size)]
    tasks.append((0, real, 1, False))
    pinned_unsupported = set(json.load(open(UNSUPPORTED_PIN))) if os.path.exists(UNSUPPORTED_PIN) else None
    now_unsupported = {}
    bykey = {fn: def_key(d) for fn, d in items}
    for res in pmap(_batch, tasks, procs=min(16, len(tasks)), mem_gb=None):
        if "crash" in res:
            if not crash_in_library(res["crash"]):
                raise HarnessError(res["crash"])
            # the generator (or the generated package, or kio.serial on it) raised where a whole batch of well-formed
            # definitions - the 186 real ones among them - is processed without error on a correct tree
            lines = [l for l in res["crash"].strip().splitlines() if l.strip()]
            run.report(violation("C16", "generator", f"C16/generator/fails-on-a-batch-of-well-formed-definitions/{lines[-1].split(':')[0].split('.')[-1][:40]}",
                                 "codegen", {"traceback": res["crash"][-2500:]}, "the generator's steps run through", lines[-1][:300], (0,)))
            continue
        for fn, why in res.pop("rejected", {}).items():
            if fn in bykey:
                now_unsupported[bykey[fn]] = (fn, why)
            else:
                run.report(violation("C16", "generator", "C16/generator/rejects-a-real-definition", fn, {"file": fn},
                                     "the generator accepts the 186 real definitions", why[:300], (fn,)))
        idx = res.pop("index_status", {"ok": True})
        if not idx.get("ok"):
            run.report(violation("C16", "index", "C16/index/generate_index-failed", "generate_index", {"why": idx.get("error")},
                                 "index generation succeeds", str(idx.get("error"))[:300], (0,)))
        run.merge(res)
    if pinned_unsupported is not None:
        newly = sorted(k for k in now_unsupported if k not in pinned_unsupported)
        for k in newly[:50]:
            fn, why = now_unsupported[k]
            d = next(d for f, d in items if f == fn)
            run.report(violation("C16", "generator", f"C16/generator/rejects-previously-supported-definition/{why.split(':')[0]}", fn,
                                 {"definition": d}, "the generator still accepts every definition of the pinned supported subset", why[:300], (fn,)))
    else:
        run.notes["unsupported_pin"] = "absent: supported subset not pinned"
    run.notes["unsupported_now"] = len(now_unsupported)
    run.notes["unsupported_reasons"] = {}
    for k, (fn, why) in now_unsupported.items():
        r = why.split(":")[0]
        run.notes["unsupported_reasons"][r] = run.notes["unsupported_reasons"].get(r, 0) + 1
    if os.environ.get("KVERIF_WRITE_PINS"):
        json.dump(sorted(now_unsupported), open(UNSUPPORTED_PIN, "w"), indent=0)
    c = run.cov
    c["programs"] = c.get("programs", 0)
    c["disagreements_checked"] = len(run.violations)
    c["distinct_nontrivial"] = c.get("definition_versions", 0)
    c["rule"] = ("every sentence of a bounded grammar of message definitions (" + ("fixed sub-grammar: one factor at a time around a base "
                 "configuration plus the combinations upstream uses" if tier == "quick" else "full product after well-formedness pruning")
                 + ": 13 primitive types x scalar/array, inline struct, struct array, common struct (scalar/array); versions {0+,1+,0-1,1,2+}; "
                 "validVersions {0-3,0-2,1-3}; flexibleVersions {2+,none,0+}; nullableVersions {-,0+,1+,2+}; tag {-,0,1,5}; ignorable; defaults "
                 "in every accepted spelling; request/response/header/data, api keys 7 and 18; special time/error/naming cases; two-field and "
                 "nested shapes) and the 186 real definitions, each pushed through the CURRENT generator in a scratch tree, for EVERY declared "
                 "version: class set, field names/order, array-ness, nullability, tags, flexibility, class constants, header; and on the wire "
                 "for all k<=1 values of the definition-side schema: KRef(definition) == kio(generated class), all-defaults instance, "
                 "generated index == generated modules. A definition on which the generator raises is unsupported (counted; the set of "
                 "unsupported sentences is pinned, a newly rejected one is a violation)")
    c["exhaustive"] = True
    run.assumptions += [
        "defspec (kverif/defspec.py) is a correct independent reading of the upstream definition format",
        "accepted kio conventions: uuid always Optional, tagged+ignorable+no-default string/bytes/records/bool Optional with default None, ...Ms renames, ErrorCode",
    ]
    return run.finish()
