"""C01 C02 C03 C05 - bounded-exhaustive exploration of instances / wire values of every entity
class, judged against the reference codec."""

from __future__ import annotations

import io
import json

from .. import bridge, refcodec, values
from ..core import Acc, HarnessError, Run, exc_name, from_json, pmap, short, violation
from ..schema_walk import all_classes, load_class, wire_schema

CONTEXTS = [(b"", b""), (b"", b"\xff"), (b"", None), (b"\x00", b"\x80\x80")]
# tail None = a second full encoding of the same instance


def kio_encode(cls, inst):
    from kio.serial import entity_writer

    buf = io.BytesIO()
    entity_writer(cls)(buf, inst)
    return buf.getvalue()


def kio_decode(cls, data, pos=0):
    from kio.serial import entity_reader

    buf = io.BytesIO(data)
    buf.seek(pos)
    out = entity_reader(cls)(buf)
    return out, buf.tell()


def first_diff(a: bytes, b: bytes):
    n = min(len(a), len(b))
    for i in range(n):
        if a[i] != b[i]:
            return i
    return n if len(a) != len(b) else None


def kt_at(ws, lay, off):
    """(kind, kafka_type) of the reference byte at offset off."""
    import re

    for s, e, k, p in lay.spans:
        if s <= off < e:
            names = re.findall(r"\.([A-Za-z_0-9<> ]+)", p)
            cur, kt = ws, None
            for n in names:
                f = next((f for f in cur.fields if f.name == n), None)
                if f is None:
                    return k, "unknown-tag"
                kt = f.kafka_type or "struct"
                if f.nested is not None:
                    cur = f.nested
            return k, kt or "tagsection"
    return "end", "length"


def x_kind(w):
    """Which tagged-section pattern a wire value uses anywhere in its tree."""
    kinds = set()

    def walk(v):
        if isinstance(v, dict):
            x = v.get("__x__")
            if x:
                if x.get("emit"):
                    kinds.add("explicit-default")
                if x.get("unknown"):
                    kinds.add("unknown-tag")
            for k, c in v.items():
                if k != "__x__":
                    walk(c)
        elif isinstance(v, list):
            for c in v:
                walk(c)

    walk(w)
    return "+".join(sorted(kinds)) or "plain"


# ---------------------------------------------------------------------------------------
# judges: (ws, cost, wire value, edits, acc, order) -> None, reporting into acc
# ---------------------------------------------------------------------------------------
def judge_c01(ws, cost, w, edits, acc, order):
    cls = ws.cls
    case = {"class": ws.path, "wire": w, "mode": "value"}
    inst = bridge.to_entity(ws, w)
    try:
        enc = kio_encode(cls, inst)
    except Exception as e:  # noqa: BLE001
        acc.report(violation("C01", "encode", f"C01/encoder-raised/{exc_name(e)}", ws.path, case,
                             "encoding a canonical well-typed instance succeeds", repr(e), order))
        return
    acc.outcome("roundtrip")
    for pre, tail in CONTEXTS:
        t = enc if tail is None else tail
        data = pre + enc + t
        acc.add("evaluations")
        try:
            dec, pos = kio_decode(cls, data, len(pre))
        except Exception as e:  # noqa: BLE001
            acc.report(violation("C01", "decode", f"C01/decoder-raised/{exc_name(e)}", ws.path, case,
                                 "decoding the encoder's own output succeeds", repr(e), order))
            return
        if type(dec) is not cls or dec != inst:
            what = diff_fields(ws, inst, dec)
            acc.report(violation("C01", "identity", f"C01/not-equal/{what}", ws.path, case,
                                 repr(inst)[:1500], repr(dec)[:1500], order))
            return
        if pos != len(pre) + len(enc):
            acc.report(violation("C01", "position", "C01/consumed-wrong-length", ws.path,
                                 dict(case, prefix=pre, tail=t), f"position {len(pre) + len(enc)}",
                                 f"position {pos}", order))
            return


def diff_fields(ws, a, b):
    """Kafka type of the first field in which two instances differ (for grouping)."""
    if type(a) is not type(b):
        return "type"
    for f in ws.fields:
        x, y = getattr(a, f.name, None), getattr(b, f.name, None)
        if x != y or type(x) is not type(y) and not isinstance(x, (str, int)):
            if f.nested is not None and not f.array and x is not None and y is not None:
                return diff_fields(f.nested, x, y)
            if f.nested is not None and f.array and isinstance(x, tuple) and isinstance(y, tuple) \
                    and len(x) == len(y):
                for p, q in zip(x, y):
                    if p != q and p is not None and q is not None:
                        return diff_fields(f.nested, p, q)
            kind = f.kafka_type or "struct"
            if f.array:
                kind += "[]"
            if f.tag is not None:
                kind += "/tagged"
            return kind
    return "unknown"


def judge_c02(ws, cost, w, edits, acc, order):
    cls = ws.cls
    case = {"class": ws.path, "wire": w, "mode": "value"}
    lay = refcodec.encode(ws, w, bridge.wire_default)
    ref = bytes(lay.buf)
    bridge.PRESENT_FOLD = True  # the two fold-twin instants are handed to the encoder as Europe/Berlin datetimes
    try:
        inst = bridge.to_entity(ws, w)
    finally:
        bridge.PRESENT_FOLD = False
    acc.add("evaluations")
    try:
        enc = kio_encode(cls, inst)
    except Exception as e:  # noqa: BLE001
        acc.report(violation("C02", "encode", f"C02/encoder-raised/{exc_name(e)}", ws.path, case,
                             ref.hex()[:400], repr(e), order))
        return
    if enc != ref:
        off = first_diff(enc, ref)
        kind, kt = kt_at(ws, lay, off)
        acc.report(violation("C02", "bytes", f"C02/bytes-differ/{kind}/{kt}", ws.path, case,
                             f"{ref.hex()[:600]} (first difference at byte {off}: {lay.where(off)})",
                             enc.hex()[:600], order))
        return
    acc.outcome(f"identical/{'flexible' if ws.flexible else 'legacy'}")
    # model self-consistency, reported separately from conformance
    back = refcodec.decode(ws, refcodec.Src(ref), bridge.wire_default)
    if not bridge.same_wire(back, bridge.strip_x(w), zero_sign=False):
        raise HarnessError(f"KRef.decode(KRef.encode(w)) != w for {ws.path}: {short(w)}")


def judge_c03(ws, cost, w, edits, acc, order):
    cls = ws.cls
    xk = x_kind(w)
    case = {"class": ws.path, "wire": w, "mode": "wire"}
    ref = bytes(refcodec.encode(ws, w, bridge.wire_default).buf)
    expect = bridge.strip_x(w)
    try:
        bridge.to_entity(ws, expect)
    except bridge.OutOfDomain:
        acc.add("out_of_domain")
        acc.outcome("out-of-domain (counted, not judged)")
        return
    acc.add("evaluations")
    try:
        dec, pos = kio_decode(cls, ref + b"\xa5")
    except Exception as e:  # noqa: BLE001
        acc.report(violation("C03", xk, f"C03/{xk}/decoder-raised/{exc_name(e)}", ws.path, case,
                             "a conforming encoding decodes", repr(e)[:300], order))
        return
    try:
        got = bridge.from_entity(ws, dec)
    except bridge.OutOfDomain as e:
        acc.report(violation("C03", xk, f"C03/{xk}/ill-typed-result", ws.path, case,
                             short(expect, 1500), f"{e}; {dec!r}"[:1500], order))
        return
    if not bridge.same_wire(got, expect):
        # what the encoding CARRIES decides: a tagged float64 at -0.0 equals its default 0.0 and is elided by every
        # conforming encoder, so the wire holds the default (the reference decoder reads the same bytes)
        carried = refcodec.decode(ws, refcodec.Src(ref), bridge.wire_default)
        if not bridge.same_wire(carried, expect, zero_sign=False):
            raise HarnessError(f"KRef.decode(KRef.encode(w)) != w for {ws.path}: {short(w)}")
        expect = carried
    if not bridge.same_wire(got, expect):
        acc.report(violation("C03", xk, f"C03/{xk}/wrong-value/{wire_diff(ws, expect, got)}", ws.path,
                             case, short(expect, 1500), short(got, 1500), order))
        return
    if pos != len(ref):
        acc.report(violation("C03", xk, f"C03/{xk}/consumed-wrong-length", ws.path, case,
                             f"position {len(ref)}", f"position {pos}", order))
        return
    acc.outcome(f"decoded/{xk}")


def wire_diff(ws, a, b):
    for f in ws.fields:
        x, y = a.get(f.name), b.get(f.name)
        if not bridge.same_wire(x, y):
            if f.nested is not None:
                if isinstance(x, dict) and isinstance(y, dict):
                    return wire_diff(f.nested, x, y)
                if isinstance(x, list) and isinstance(y, list) and len(x) == len(y):
                    for p, q in zip(x, y):
                        if isinstance(p, dict) and isinstance(q, dict) and not bridge.same_wire(p, q):
                            return wire_diff(f.nested, p, q)
            kind = f.kafka_type or "struct"
            if f.array:
                kind += "[]"
            if f.tag is not None:
                kind += "/tagged"
            return kind
    return "unknown"


def _is_decode_rejection(e):
    from kio.serial.errors import SerialError

    return isinstance(e, (SerialError, ValueError, OverflowError))


def judge_c05(ws, cost, w, edits, acc, order):
    cls = ws.cls
    xk = x_kind(w)
    case = {"class": ws.path, "wire": w, "mode": "wire"}
    b = bytes(refcodec.encode(ws, w, bridge.wire_default).buf)
    acc.add("evaluations")
    try:
        d1, _ = kio_decode(cls, b)
    except Exception as e:  # noqa: BLE001
        acc.add("not_accepted")
        acc.outcome(f"not-accepted/{exc_name(e)}")
        return
    try:
        b2 = kio_encode(cls, d1)
    except Exception as e:  # noqa: BLE001
        acc.report(violation("C05", "re-encode", f"C05/encoder-rejects-decoder-output/{exc_name(e)}",
                             ws.path, case, "whatever the decoder returns is encodable", repr(e)[:300],
                             order))
        return
    if xk == "plain":
        if b2 != b:
            off = first_diff(b2, b)
            lay = refcodec.encode(ws, w, bridge.wire_default)
            kind, kt = kt_at(ws, lay, off)
            acc.report(violation("C05", "lossless", f"C05/re-encoding-differs/{kind}/{kt}", ws.path, case,
                                 f"{b.hex()[:600]} (first difference at byte {off}: {lay.where(off)})",
                                 b2.hex()[:600], order))
            return
        acc.outcome("canonical: bytes reproduced")
    # idempotence on any accepted input
    try:
        d2, _ = kio_decode(cls, b2)
        b3 = kio_encode(cls, d2)
    except Exception as e:  # noqa: BLE001
        acc.report(violation("C05", "idempotent", f"C05/second-pass-raised/{exc_name(e)}", ws.path, case,
                             "decode(encode(decode(b))) succeeds", repr(e)[:300], order))
        return
    if b3 != b2:
        acc.report(violation("C05", "idempotent", "C05/not-idempotent", ws.path, case, b2.hex()[:600],
                             b3.hex()[:600], order))
        return
    if xk != "plain":
        acc.outcome(f"non-canonical ({xk}): idempotent")


JUDGES = {"C01": ("value", judge_c01), "C02": ("value", judge_c02), "C03": ("wire", judge_c03),
          "C05": ("wire", judge_c05)}  # fmt: skip


# ---------------------------------------------------------------------------------------
# driver
# ---------------------------------------------------------------------------------------
def tier_config(tier):
    if tier == "quick":
        return {"k": 1, "own_k": 2, "k3_slots": 0, "cap": 60000}
    return {"k": 2, "own_k": None, "k3_slots": 12, "cap": 400000}


def _task(arg):
    prop, idx, cfg = arg
    mode, judge = JUDGES[prop]
    api, ver, typ, mod, cls = all_classes()[idx]
    ws = wire_schema(cls)
    acc = Acc()
    k, own_k = cfg["k"], cfg["own_k"]
    probe = values.Explorer(ws, k, mode, cfg.get("max_len", 32767), long_arrays=True)
    if cfg["k3_slots"] and probe.slots <= cfg["k3_slots"]:
        k = 3
    ex = values.Explorer(ws, k, mode, cfg.get("max_len", 32767), own_k=own_k, cap=cfg["cap"], long_arrays=True)
    seen = set()
    for cost, w, edits in ex:
        h = hash(values.freeze(w))
        if h in seen:
            acc.add("duplicate_instances")
            continue
        seen.add(h)
        acc.add("states")
        if cost:
            acc.add("distinct_nontrivial")
        judge(ws, cost, w, edits, acc, (idx, cost, len(seen)))
        if cost == 2 and len(acc.samples) < 2:
            acc.sample({"class": ws.path, "edits": [list(e) for e in edits], "wire": short(w, 300)})
    # one more deviation per string / bytes / records slot: a payload of 2 MiB + 4321 bytes (not combined with others)
    for n, w in enumerate(values.huge_instances(ex.tree)):
        acc.add("states")
        acc.add("distinct_nontrivial")
        acc.add("huge_payload_instances")
        judge(ws, 1, w, (("huge", n),), acc, (idx, 1, 10**7 + n))
    acc.add("edit_sets", ex.edit_sets)
    acc.add("transitions", ex.transitions)
    acc.add("classes")
    acc.add(f"classes_completed_k{ex.k}")
    if ex.capped:
        acc.caps.append(f"{ws.path}: state cap {cfg['cap']} hit, completed k={ex.k} own_k={ex.own_k}")
    return acc.result()


def run_generic(prop, tier, level="model_checking", extra=None):
    from .. import vectors

    run = Run(prop, tier, level)
    cfg = tier_config(tier)
    classes = all_classes()
    run.notes["reference_vectors_verified"] = vectors.verify()
    order = list(range(len(classes)))
    run.rng.shuffle(order)  # VERIF_SEED permutes work order only
    for res in pmap(_task, [(prop, i, cfg) for i in order], chunksize=4):
        run.merge(res)
    c = run.cov
    c["traces_validated_against_impl"] = c.get("states", 0)
    mode = JUDGES[prop][0]
    c["rule"] = (
        f"{mode}-first exploration of all {len(classes)} entity classes: level-order enumeration of "
        f"the edit lattice around the base instance, k<={cfg['k']} deviations on the whole tree"
        + (f", k<={cfg['own_k']} on top-level fields" if cfg["own_k"] else "")
        + (f", k<=3 for classes with <= {cfg['k3_slots']} slots" if cfg["k3_slots"] else "")
        + "; one state = one distinct wire value (hashed canonical tree), one transition = one slot "
        "changed to one alphabet alternative; a state is non-trivial when it differs from the base "
        "instance; enumeration count verified against an independent counting formula per class"
    )
    c["exhaustive"] = not run.caps
    c["bounds"] = cfg
    run.assumptions += [
        "reference codec KRef (kverif/refcodec.py) is a correct reading of the Kafka protocol guide, "
        "KIP-482 and KIP-893; anchored by hand-assembled vectors (kverif/vectors.py)",
        "alphabets and array lengths (<=2) as listed in DESIGN.md section 3 (E4)",
        "state identity uses Python's 64-bit hash of the canonical tree (collision would undercount)",
    ]
    if extra:
        extra(run)
    return run.finish()


def run_c01(tier):
    from . import codec_rows

    return run_generic("C01", tier, extra=lambda run: codec_rows.sweep(run, tier, "C01"))


def run_c02(tier):
    from . import codec_rows

    return run_generic("C02", tier, extra=lambda run: codec_rows.sweep(run, tier))


def run_c03(tier):
    from . import codec_rows

    return run_generic("C03", tier, extra=lambda run: codec_rows.sweep(run, tier, "C03"))


def run_c05(tier):
    from . import codec_rows

    return run_generic("C05", tier, extra=lambda run: codec_rows.sweep(run, tier, "C05"))


def replay(prop, path):
    rec = json.load(open(path))
    case = from_json(rec["case"])
    if rec["property"] != prop:
        raise HarnessError(f"replay file is for {rec['property']}")
    if rec["class"].startswith("synthetic:"):
        from . import codec_rows

        return codec_rows.replay(prop, rec, case)
    cls = load_class(rec["class"])
    ws = wire_schema(cls)
    acc = Acc()
    JUDGES[prop][1](ws, 0, case["wire"], (), acc, 0)
    res = acc.result()
    if res["violations"]:
        v = res["violations"][0]
        print(f"VIOLATION property={prop} replay={path}")
        print(f"  signature={v['signature']}\n  expected: {v['expected'][:400]}\n  observed: {v['observed'][:400]}")
        return 1
    print(f"replay {path}: no violation on the current tree")
    return 0
