"""C07 - messages are self-delimiting on a sequential stream, whatever the sink/source kind.
Part A: every class x every k<=1 instance x sink kinds x source kinds (call-log invariants).
Part B: explicit-state exploration of message sequences on one stream (state = stream content)."""

from __future__ import annotations

import io
import itertools
import json

from .. import bridge, refcodec, streams, values
from ..core import Acc, HarnessError, Run, chunks, exc_name, from_json, pmap, short, violation
from ..schema_walk import all_classes, load_class, wire_schema
from .codec import kio_encode

JUNK_PRE = b"\x00\xff"
JUNK_POST = b"\x80\x80\x01"


def write_to_sinks(cls, inst):
    """-> {kind: (bytes as sent immediately, bytes as sent by a queueing sink, problems)}"""
    from kio.serial import entity_writer

    w = entity_writer(cls)
    out = {}
    b = io.BytesIO()
    w(b, inst)
    out["BytesIO"] = (b.getvalue(), b.getvalue(), [])
    s = streams.WriteOnlySink()
    w(s, inst)
    probs = [f"write({t})" for _, t, _ in s.calls if t not in ("bytes", "bytearray", "memoryview")]
    out["WriteOnlySink"] = (s.getvalue(), s.retained_value(), probs)
    sw, tr = streams.stream_writer()
    w(sw, inst)
    out["asyncio.StreamWriter"] = (tr.getvalue(), tr.retained_value(), [])
    return out


def read_from_sources(cls, data, pos, end):
    """-> {kind: (value, position, problems)}"""
    from kio.serial import entity_reader

    r = entity_reader(cls)
    out = {}
    b = io.BytesIO(data)
    b.seek(pos)
    out["BytesIO"] = (r(b), b.tell(), [])
    s = streams.ReadOnlySource(data, pos)
    v = r(s)
    probs = []
    if any((n is None or n < 0) for n in s.calls):
        probs.append("read with a negative size")
    elif sum(s.calls) != end - pos:
        probs.append(f"requested {sum(s.calls)} bytes in total for an encoding of {end - pos}")
    out["ReadOnlySource"] = (v, s.pos, probs)
    br = streams.buffered_source(data, pos)
    v = r(br)
    out["BufferedReader"] = (v, len(data) - len(br.read()), [])
    return out


def judge_a(ws, w, acc, order):
    cls = ws.cls
    case = {"class": ws.path, "wire": w}
    inst = bridge.to_entity(ws, w)
    acc.add("evaluations")
    try:
        sinks = write_to_sinks(cls, inst)
    except Exception as e:  # noqa: BLE001
        acc.report(violation("C07", "sinks", f"C07/sink/raised/{exc_name(e)}", ws.path, case,
                             "encoding works on every sink kind", repr(e)[:300], order))
        return
    ref = sinks["BytesIO"][0]
    for kind, (now, later, probs) in sinks.items():
        if probs:
            acc.report(violation("C07", "sinks", f"C07/sink/{kind}/not-only-sequential-writes", ws.path, case,
                                 "only write(bytes-like) calls", "; ".join(probs)[:300], order))
            return
        if now != ref:
            acc.report(violation("C07", "sinks", f"C07/sink/{kind}/bytes-depend-on-sink", ws.path, case,
                                 ref.hex()[:400], now.hex()[:400], order))
            return
        if later != ref:
            acc.report(violation("C07", "sinks", f"C07/sink/{kind}/written-buffer-mutated-afterwards", ws.path,
                                 case, ref.hex()[:400], later.hex()[:400], order))
            return
    data = JUNK_PRE + ref + JUNK_POST
    try:
        got = read_from_sources(cls, data, len(JUNK_PRE), len(JUNK_PRE) + len(ref))
    except Exception as e:  # noqa: BLE001
        acc.report(violation("C07", "sources", f"C07/source/raised/{exc_name(e)}", ws.path, case,
                             "decoding works on every source kind", repr(e)[:300], order))
        return
    for kind, (val, pos, probs) in got.items():
        if probs:
            acc.report(violation("C07", "sources", f"C07/source/{kind}/not-only-exact-reads", ws.path, case,
                                 "only read(n), n>=0, sum n = encoded length", "; ".join(probs)[:300], order))
            return
        if val != inst or type(val) is not cls:
            acc.report(violation("C07", "sources", f"C07/source/{kind}/value-depends-on-source", ws.path, case,
                                 repr(inst)[:600], repr(val)[:600], order))
            return
        if pos != len(JUNK_PRE) + len(ref):
            acc.report(violation("C07", "sources", f"C07/source/{kind}/position", ws.path, case,
                                 f"position {len(JUNK_PRE) + len(ref)}", f"position {pos}", order))
            return
    acc.outcome("same bytes on 3 sink kinds, same value and position on 3 source kinds")


def _task_a(arg):
    idx, cfg = arg
    api, ver, typ, mod, cls = all_classes()[idx]
    ws = wire_schema(cls)
    acc = Acc()
    ex = values.Explorer(ws, cfg["k"], "value", cfg["max_len"], cap=cfg["cap"])
    seen = set()
    for cost, w, edits in ex:
        h = hash(values.freeze(w))
        if h in seen:
            continue
        seen.add(h)
        acc.add("instances")
        judge_a(ws, w, acc, (idx, cost, len(seen)))
    acc.add("classes")
    if ex.capped:
        acc.caps.append(f"{ws.path}: instance cap {cfg['cap']} hit, completed k={ex.k}")
    return acc.result()


# ---------------------------------------------------------------------------------------
# part B: sequences of messages on one stream
# ---------------------------------------------------------------------------------------
KINDS = [
    ("kio.schema.request_header.v1.header:RequestHeader", "kio.schema.metadata.v5.request:MetadataRequest"),
    ("kio.schema.request_header.v2.header:RequestHeader", "kio.schema.fetch.v15.request:FetchRequest"),
    ("kio.schema.response_header.v0.header:ResponseHeader", "kio.schema.metadata.v5.response:MetadataResponse"),
    ("kio.schema.response_header.v1.header:ResponseHeader", "kio.schema.find_coordinator.v3.response:FindCoordinatorResponse"),
    ("kio.schema.response_header.v0.header:ResponseHeader", "kio.schema.api_versions.v3.response:ApiVersionsResponse"),
    (None, "kio.schema.consumer_protocol_subscription.v3.data:ConsumerProtocolSubscription"),
]


def pick_variant(node, pick):
    if isinstance(node, values.Leaf):
        return pick(node.alts)
    if isinstance(node, values.StructN):
        return {n: pick_variant(c, pick) for n, c in node.children if n != "__x__"}
    if isinstance(node, (values.OptN, values.DefaultFirst)):
        return pick_variant(node.child, pick)
    if isinstance(node, values.ArrN):
        return [pick_variant(node.elem, pick)]
    raise HarnessError("pick_variant")


def _second(alts):
    return alts[1] if len(alts) > 1 else alts[0]


def _last(alts):
    return alts[-1]


def _longest(alts):
    """strings / bytes: the longest alternative up to 300 bytes; everything else: the LAST alternative, so that this
    variant differs from `_second` in (almost) every leaf, not only in strings"""
    best = alts[-1]
    if any(isinstance(a, (str, bytes)) for a in alts):
        best = alts[1] if len(alts) > 1 else alts[0]
        for a in alts:
            if isinstance(a, (str, bytes)) and (not isinstance(best, (str, bytes)) or len(a) > len(best)):
                if len(a) <= 300:
                    best = a
    return best


def letters():
    """[(label, [(ws, wire value), ...])]: 6 message kinds x 3 values each."""
    out = []
    for ki, (hdr, pay) in enumerate(KINDS):
        for vi, pick in enumerate((_second, _last, _longest)):
            parts = []
            for path in (hdr, pay):
                if path is None:
                    continue
                ws = wire_schema(load_class(path))
                tree = values.build(ws, "value", 300)
                parts.append((ws, pick_variant(tree, pick)))
            out.append((f"k{ki}v{vi}", parts))
    return out


_letters = None


def judge_seq(seq, acc, order):
    """seq: tuple of letter indices.  Write all messages back to back to ONE queueing sink with junk
    before and after, then read the same sequence of classes from a read-only source."""
    from kio.serial import entity_reader, entity_writer

    global _letters
    if _letters is None:
        _letters = letters()
    case = {"sequence": [_letters[i][0] for i in seq]}
    sink = streams.WriteOnlySink()
    sink.write(JUNK_PRE)
    expect = [JUNK_PRE]
    insts = []
    acc.add("evaluations")
    try:
        for i in seq:
            for ws, w in _letters[i][1]:
                inst = bridge.to_entity(ws, w)
                insts.append((ws, inst))
                entity_writer(ws.cls)(sink, inst)
                expect.append(bytes(refcodec.encode(ws, w, bridge.wire_default).buf))
        sink.write(JUNK_POST)
    except Exception as e:  # noqa: BLE001
        acc.report(violation("C07", "sequence", f"C07/sequence/write-raised/{exc_name(e)}", "stream", case,
                             "all messages are written", repr(e)[:300], order))
        return None
    expect.append(JUNK_POST)
    want = b"".join(expect)
    if sink.other:
        acc.add("attribute_probes_on_sink")  # a probe that is handled gracefully is not a violation
    if sink.getvalue() != want:
        acc.report(violation("C07", "sequence", "C07/sequence/stream-content-differs-from-concatenation", "stream",
                             case, want.hex()[:400], sink.getvalue().hex()[:400], order))
        return None
    if sink.retained_value() != want:
        acc.report(violation("C07", "sequence", "C07/sequence/written-buffer-mutated-afterwards", "stream", case,
                             want.hex()[:400], sink.retained_value().hex()[:400], order))
        return None
    src = streams.ReadOnlySource(want, len(JUNK_PRE))
    try:
        for n, (ws, inst) in enumerate(insts):
            got = entity_reader(ws.cls)(src)
            if got != inst or type(got) is not ws.cls:
                acc.report(violation("C07", "sequence", "C07/sequence/value-differs", "stream",
                                     dict(case, entity=n), repr(inst)[:600], repr(got)[:600], order))
                return None
    except Exception as e:  # noqa: BLE001
        acc.report(violation("C07", "sequence", f"C07/sequence/read-raised/{exc_name(e)}", "stream", case,
                             "all messages decode one after another", repr(e)[:300], order))
        return None
    if src.pos != len(want) - len(JUNK_POST) or any(n < 0 for n in src.calls):
        acc.report(violation("C07", "sequence", "C07/sequence/does-not-end-at-the-trailing-bytes", "stream", case,
                             f"position {len(want) - len(JUNK_POST)}", f"position {src.pos}, other={src.other}", order))
        return None
    # the same stream through a small-buffer BufferedReader over a dribbling raw stream (socket file look-alike)
    br = streams.buffered_source(want, len(JUNK_PRE))
    try:
        for n, (ws, inst) in enumerate(insts):
            got = entity_reader(ws.cls)(br)
            if got != inst:
                acc.report(violation("C07", "sequence", "C07/sequence/value-differs-on-buffered-source", "stream",
                                     dict(case, entity=n), repr(inst)[:600], repr(got)[:600], order))
                return None
        rest = br.read()
    except Exception as e:  # noqa: BLE001
        acc.report(violation("C07", "sequence", f"C07/sequence/read-raised-on-buffered-source/{exc_name(e)}", "stream", case,
                             "all messages decode one after another", repr(e)[:300], order))
        return None
    if rest != JUNK_POST:
        acc.report(violation("C07", "sequence", "C07/sequence/buffered-source-does-not-end-at-the-trailing-bytes", "stream", case,
                             JUNK_POST.hex(), rest.hex()[:100], order))
        return None
    # the same stream as a raw (unbuffered) io.RawIOBase source that satisfies every read in full - an unbuffered
    # file or pipe: whatever the reader does with such an object, it must leave it exactly after each message
    raw = streams.DribbleRaw(want, step=1 << 30)
    raw.read(len(JUNK_PRE))
    try:
        for n, (ws, inst) in enumerate(insts):
            got = entity_reader(ws.cls)(raw)
            if got != inst:
                acc.report(violation("C07", "sequence", "C07/sequence/value-differs-on-raw-source", "stream",
                                     dict(case, entity=n), repr(inst)[:600], repr(got)[:600], order))
                return None
        rest = raw.read()
    except Exception as e:  # noqa: BLE001
        acc.report(violation("C07", "sequence", f"C07/sequence/read-raised-on-raw-source/{exc_name(e)}", "stream", case,
                             "all messages decode one after another", repr(e)[:300], order))
        return None
    if rest != JUNK_POST:
        acc.report(violation("C07", "sequence", "C07/sequence/raw-source-does-not-end-at-the-trailing-bytes", "stream", case,
                             JUNK_POST.hex(), (rest or b"").hex()[:100], order))
        return None
    acc.outcome("sequence decoded in order, ends exactly at the trailing bytes")
    return hash(want)


def _task_b(arg):
    acc = Acc()
    states = set()
    for n, seq in arg:
        h = judge_seq(seq, acc, (len(seq), n))
        if h is not None:
            states.add(h)
        acc.add("transitions", 1 if seq else 0)
        if len(seq) == 3 and len(acc.samples) < 1 and _letters:
            acc.sample({"sequence": [_letters[i][0] for i in seq],
                        "meaning": "k = message kind (header+payload classes), v = value variant"})
    r = acc.result()
    r["states"] = states
    return r


def run_c07(tier):
    run = Run("C07", tier, "model_checking")
    cfg = {"k": 1, "max_len": 300, "cap": 20000} if tier == "quick" else {"k": 2, "max_len": 300, "cap": 4000}
    classes = all_classes()
    order = list(range(len(classes)))
    run.rng.shuffle(order)
    for res in pmap(_task_a, [(i, cfg) for i in order], chunksize=2):
        run.merge(res)
    run.notes["part_a_instances"] = run.cov.get("instances", 0)
    depth = 3 if tier == "quick" else 4
    nl = len(letters())
    seqs = [()]
    for d in range(1, depth + 1):
        seqs.extend(itertools.product(range(nl), repeat=d))
    items = list(enumerate(seqs))
    run.rng.shuffle(items)
    states = set()
    for res in pmap(_task_b, chunks(items, max(1, len(items) // 64))):
        states |= res.pop("states")
        run.merge(res)
    c = run.cov
    c["states"] = len(states)
    c["traces_validated_against_impl"] = len(seqs)
    c["distinct_nontrivial"] = c.get("instances", 0) + len(seqs) - 1
    c["rule"] = (
        f"part A: all {len(classes)} classes x every instance within k<={cfg['k']} deviations, written to "
        "io.BytesIO, a write-only queueing sink and an asyncio.StreamWriter over a recording transport, read "
        "(with leading and trailing bytes) from io.BytesIO, a read-only socket-like source and a BufferedReader "
        "over a 3-byte-dribbling raw stream; call-log invariants. Part B: explicit-state exploration of message "
        f"sequences: alphabet of {nl} letters (6 header+payload kinds x 3 value variants incl. multi-byte varint "
        f"lengths), every sequence of length <= {depth} appended to ONE stream between junk bytes; state = "
        "stream content, transition = one appended message; invariant: content equals the concatenation of "
        "the reference encodings, and reading the same classes back returns the same values and stops "
        "exactly at the trailing bytes"
    )
    c["exhaustive"] = not run.caps
    c["bounds"] = dict(cfg, depth=depth, letters=nl)
    run.assumptions += ["a queueing sink may flush the objects it was handed later (asyncio transports do)",
                        "reference codec KRef for the expected stream content in part B"]
    return run.finish()


def replay(prop, path):
    rec = json.load(open(path))
    case = from_json(rec["case"])
    acc = Acc()
    if "sequence" in case:
        global _letters
        _letters = letters()
        names = [l[0] for l in _letters]
        judge_seq(tuple(names.index(s) for s in case["sequence"]), acc, (0,))
    else:
        ws = wire_schema(load_class(rec["class"]))
        judge_a(ws, case["wire"], acc, (0,))
    res = acc.result()
    if res["violations"]:
        v = res["violations"][0]
        print(f"VIOLATION property={prop} replay={path}")
        print(f"  signature={v['signature']}\n  expected: {v['expected'][:400]}\n  observed: {v['observed'][:400]}")
        return 1
    print(f"replay {path}: no violation on the current tree")
    return 0
