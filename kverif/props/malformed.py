"""C10 - malformed input: exhaustive short byte strings and exhaustive 1-fault (thorough: also
2-fault on layout-critical offsets) neighbourhoods of valid encodings, for every class."""

from __future__ import annotations

import io
import itertools
import json

from .. import bridge, refcodec, streams, values
from ..core import Acc, Run, exc_name, pmap, short, violation
from ..schema_walk import all_classes, wire_schema
from .codec import kio_decode, kio_encode
from .faults import BUDGET_A, BUDGET_B, budget_for, decode_with

REDUCED = (0x00, 0x01, 0x02, 0x7F, 0x80, 0x81, 0xFE, 0xFF)


def short_strings(tier):
    full = 1 if tier == "quick" else 2
    red = 3 if tier == "quick" else 4
    yield b""
    for n in range(1, full + 1):
        for t in itertools.product(range(256), repeat=n):
            yield bytes(t)
    for n in range(full + 1, red + 1):
        for t in itertools.product(REDUCED, repeat=n):
            yield bytes(t)
    # longer strings over a three-letter alphabet (zero / one / all ones): deeper into nested structure
    tiny = 5 if tier == "quick" else 9
    for n in range(red + 1, tiny + 1):
        for t in itertools.product((0x00, 0x01, 0xFF), repeat=n):
            yield bytes(t)


def allowed_error(e):
    from kio.serial.errors import SerialError

    return isinstance(e, (SerialError, ValueError, OverflowError)) and not isinstance(
        e, (KeyError, IndexError, TypeError, AttributeError, AssertionError, RecursionError, MemoryError)
    )


def judge_input(ws, data, part, fault, acc, order, readonly=False, count=True):
    """One malformed (or not) input through the real decoder."""
    cls = ws.cls
    acc.add("evaluations")
    seen_inputs = acc.__dict__.setdefault("_seen_inputs", {}).setdefault(ws.path, set())
    h = hash(data)
    if h not in seen_inputs:
        seen_inputs.add(h)
        if data:
            acc.add("distinct_nontrivial")  # distinct input bytes for this class; the empty input is the trivial case
    src = streams.ReadOnlySource(data) if readonly else (streams.CountingBytesIO(data) if count else io.BytesIO(data))
    res, val = decode_with(cls, src, len(data))
    if not readonly and count and src.returned > len(data):
        acc.report(violation("C10", part, f"C10/{part}/obtained-more-bytes-than-the-input-holds", ws.path,
                             {"class": ws.path, "input": data, "fault": fault}, f"at most {len(data)} bytes obtained from the source",
                             f"{src.returned} bytes obtained in {src.nreads} reads (re-reading / reading ahead)", order))
        return
    case = {"class": ws.path, "input": data, "fault": fault}
    if readonly and src.negative_reads:
        acc.add("negative_read_calls_observed")
    if res == "budget":
        acc.report(violation("C10", part, f"C10/{part}/step-budget-exceeded", ws.path, case,
                             f"finishes within {budget_for(len(data))} steps", "budget exceeded", order))
        return
    if res == "raised":
        if allowed_error(val):
            acc.outcome(f"raised/{exc_name(val)}")
        else:
            acc.report(violation("C10", part, f"C10/{part}/internal-error/{exc_name(val)}", ws.path, case,
                                 "entity, SerialError, ValueError or OverflowError", repr(val)[:300], order))
        return
    pos = src.pos if readonly else src.tell()
    if pos > len(data):
        acc.report(violation("C10", part, f"C10/{part}/consumed-beyond-input", ws.path, case,
                             f"position <= {len(data)}", f"position {pos}", order))
        return
    # whatever is returned must be encodable again, and stable
    try:
        enc = kio_encode(cls, val)
    except Exception as e:  # noqa: BLE001
        acc.report(violation("C10", part, f"C10/{part}/returned-unencodable/{exc_name(e)}", ws.path, case,
                             "returned entity can be encoded again", f"{e!r}; entity={val!r}"[:600], order))
        return
    try:
        again, _ = kio_decode(cls, enc)
        enc2 = kio_encode(cls, again)
    except Exception as e:  # noqa: BLE001
        acc.report(violation("C10", part, f"C10/{part}/re-decode-failed/{exc_name(e)}", ws.path, case,
                             "re-encoded entity decodes", repr(e)[:300], order))
        return
    if enc2 != enc:
        acc.report(violation("C10", part, f"C10/{part}/re-encode-unstable", ws.path, case, enc.hex()[:300],
                             enc2.hex()[:300], order))
        return
    acc.outcome("returned-entity")


def _task(arg):
    idx, cfg = arg
    api, ver, typ, mod, cls = all_classes()[idx]
    ws = wire_schema(cls)
    acc = Acc()
    n = 0
    if cfg["short"]:
        for s in short_strings(cfg["tier"]):
            n += 1
            judge_input(ws, s, "short", None, acc, (idx, 0, n))
        acc.add("short_strings", n)
    # wire-first: the base encodings range over the full wire domain (values Python cannot represent, explicit defaults,
    # unknown tags), not only over what kio itself would write
    ex = values.Explorer(ws, cfg["k"], "wire", cfg["max_len"], cap=cfg["cap"])
    seen = set()
    shapes = set()
    payload_shapes = set()
    for cost, w, edits in ex:
        h = hash(values.freeze(w))
        if h in seen:
            continue
        seen.add(h)
        lay = refcodec.encode(ws, w, bridge.wire_default)
        enc = bytes(lay.buf)
        acc.add("base_encodings")
        judge_input(ws, enc, "base", None, acc, (idx, 1 + cost, len(seen), 0))
        crit = lay.critical_offsets()
        # all offsets for the base instance and (thorough) for every instance up to 1 KiB; the instances that carry a
        # 4 KiB / 70 KB unknown-tag payload are mutated at their layout-critical offsets only
        tag_pattern = any(str(e[0]).endswith("<tags>") for e in edits)  # explicit defaults / unknown tags: critical offsets
        offsets = None if (cost == 0 or (cfg["all_offsets"] and len(enc) <= 1024 and not tag_pattern)) else crit
        m = 0
        for fault, data in streams.single_mutations(enc, offsets):
            m += 1
            judge_input(ws, data, "mutation", list(fault), acc, (idx, 1 + cost, len(seen), m),
                        readonly=(cost == 0), count=False)
        acc.add("single_mutations", m)
        # hostile prefixes once per distinct layout shape (same kinds and widths of spans in the same order):
        # an instance that differs from an earlier one only in a scalar value has the same prefixes
        shape = tuple((k, e - s_) for s_, e, k, _ in lay.spans if k != "data")
        if cfg["all_offsets"] or shape not in shapes:
            m = 0
            for fault, data in streams.prefix_substitutions(enc, lay, ws.flexible, ws.is_request_header):
                m += 1
                judge_input(ws, data, "prefix", list(fault), acc, (idx, 3 + cost, len(seen), m))
            acc.add("prefix_substitutions", m)
            shapes.add(shape)
        # ill-formed UTF-8 inside string payloads, once per (field, payload width)
        m = 0
        pkey = tuple((p_, e - s_) for s_, e, k, p_ in lay.spans if k == "data")
        if pkey not in payload_shapes:
            payload_shapes.add(pkey)
            for fault, data in streams.payload_substitutions(enc, lay):
                m += 1
                judge_input(ws, data, "payload", list(fault), acc, (idx, 4 + cost, len(seen), m))
            acc.add("payload_substitutions", m)
        if cfg["pairs"] and cost == 0:
            m = 0
            for fault, data in streams.pair_overwrites(enc, crit[: cfg["pair_offsets"]]):
                m += 1
                judge_input(ws, data, "mutation2", [fault[0], list(fault[1]), list(fault[2])], acc,
                            (idx, 5, len(seen), m))
            acc.add("pair_mutations", m)
            if len(crit) > cfg["pair_offsets"]:
                acc.caps.append(f"{ws.path}: pairs restricted to the first {cfg['pair_offsets']} of "
                                f"{len(crit)} layout-critical offsets")
        if cost == 0 and not acc.samples:
            acc.sample({"class": ws.path, "valid_encoding": enc.hex()[:80],
                        "critical_offsets": crit[:20], "example_fault": ["overwrite", crit[0] if crit else 0, 255]})
    acc.add("classes")
    acc.__dict__.pop("_seen_inputs", None)
    if ex.capped:
        acc.caps.append(f"{ws.path}: instance cap {cfg['cap']} hit, completed k={ex.k}")
    return acc.result()


def run_c10(tier):
    run = Run("C10", tier, "fault_enumeration")
    if tier == "quick":
        cfg = {"tier": tier, "short": True, "k": 1, "max_len": 130, "cap": 3000, "all_offsets": False,
               "pairs": False, "pair_offsets": 0}
    else:
        cfg = {"tier": tier, "short": True, "k": 1, "max_len": 130, "cap": 20000, "all_offsets": True,
               "pairs": True, "pair_offsets": 24}
    classes = all_classes()
    order = list(range(len(classes)))
    run.rng.shuffle(order)
    for res in pmap(_task, [(i, cfg) for i in order], chunksize=2):
        run.merge(res)
    c = run.cov
    c["rule"] = (
        f"for every one of the {len(classes)} classes: (a) every byte string of length <= "
        f"{1 if tier == 'quick' else 2} over all 256 byte values and of length <= {3 if tier == 'quick' else 4} "
        f"over {{00,01,02,7f,80,81,fe,ff}} and of length <= {5 if tier == 'quick' else 9} over {{00,01,ff}}; (b) for every instance within k<=1 deviations (reference "
        "encoding, strings <= 130 bytes): every single-byte overwrite from {00,01,7f,80,ff,b^80,b^01,b+1}, "
        "every single deletion, every single insertion from {00,01,80,ff} - at all offsets for the base "
        "instance" + (" and for all k=1 instances up to 1 KiB that deviate in a value (not in a tagged-section pattern)" if cfg["all_offsets"] else
                      ", at the layout-critical offsets (length prefixes, counts, tags, sizes, markers) for k=1 instances")
        + ("; (c) every pair of overwrites on the layout-critical offsets of the base instance" if cfg["pairs"] else "")
        + "; (d) every length / count / tag / size / marker prefix of every such instance (quick: of one instance per distinct layout shape) replaced as a whole by hostile encodings "
        "(maximal and over-long varints, values around 2^31 and 2^35, negative and huge fixed-width lengths, all 256 marker bytes)"
        + f". distinct_nontrivial counts distinct non-empty input byte strings per class (different faults can produce the same bytes). Verdict per input: finishes within {BUDGET_A}+{BUDGET_B}*len "
        "monitored steps; returns an entity (which must re-encode and re-decode stably) or raises SerialError / "
        "ValueError / OverflowError; position never beyond the input."
    )
    c["exhaustive"] = not run.caps
    c["bounds"] = cfg
    run.assumptions += [
        "the property's 'random byte strings' is replaced by exhaustive short strings and exhaustive 1-/2-fault "
        "neighbourhoods of valid encodings; long random inputs are not claimed",
        "'time proportional to the input' is decided by a step budget (PY_START+JUMP events), not wall time",
        "read(n) with negative n (hostile legacy length -2) is recorded as an observation, not judged",
    ]
    return run.finish()


def replay_case(ws, rec, case, path):
    acc = Acc()
    judge_input(ws, case["input"], rec["part"], case.get("fault"), acc, (0,))
    res = acc.result()
    if res["violations"]:
        v = res["violations"][0]
        print(f"VIOLATION property=C10 replay={path}")
        print(f"  signature={v['signature']}\n  expected: {v['expected'][:400]}\n  observed: {v['observed'][:400]}")
        return 1
    print(f"replay {path}: no violation on the current tree")
    return 0
