"""C17 (new batches are v2 batches) and C18 (faithful read, rejection of damage), judged by the
independent batch model kverif/refbatch.py."""

from __future__ import annotations

import datetime
import io
import itertools
import json

from .. import refbatch, streams, values
from ..bridge import EPOCH, MAX_DT_MS
from ..core import Acc, HarnessError, Run, chunks, exc_name, from_json, pmap, short, violation
from ..values import Leaf, StructN
from .faults import budget_for

BIG = 2**31 - 1
PAY = [None, b"", b"k", b"\x00" * 63, b"\x00" * 64, b"\xff" * 8191, b"\xff" * 8192]
HEADERS = [[], [[b"k", b"v"]], [[None, None]], [[b"", b""], [b"h" * 64, None]],
           [[b"a", b"1"], [b"a", b"2"], [b"b", None]]]  # fmt: skip
TS0 = [1_000_000, 0, 1_001_000, 1_700_000_000_123_000, MAX_DT_MS * 1000, 1_001_500, 999_999, 1_000_001]
TSN = [1_000_000, 1_001_000, 999_000, 0, 1_700_000_000_124_000, 86_400_000_000, 1_001_499, 1_001_999]


def record_node(i):
    p = f".r{i}"
    off0 = [0, 100, 2**62, 2**63 - 1 - BIG] if i == 0 else [i, 100, 99, 0, 100 + BIG, 2**62 + 5, -1]
    return StructN(None, [
        ("attributes", Leaf(p + ".attributes", [0, 127, -128, 1])),
        ("ts_us", Leaf(p + ".ts_us", TS0 if i == 0 else TSN)),
        ("offset", Leaf(p + ".offset", off0)),
        ("key", Leaf(p + ".key", PAY)),
        ("value", Leaf(p + ".value", [b"v"] + PAY)),
        ("headers", Leaf(p + ".headers", HEADERS)),
    ], p)  # fmt: skip


def batch_tree():
    return StructN(None, [
        ("producer_id", Leaf(".producer_id", [-1, 0, 2**63 - 1, -(2**63)])),
        ("producer_epoch", Leaf(".producer_epoch", [-1, 0, 2**15 - 1, -(2**15)])),
        ("partition_leader_epoch", Leaf(".partition_leader_epoch", [0, -1, BIG, -(2**31)])),
        ("base_sequence", Leaf(".base_sequence", [-1, 0, BIG, -(2**31)])),
        ("attributes", Leaf(".attributes", [0, 16, 32, 2**15 - 1, -(2**15), 7])),
        ("count", Leaf(".count", [1, 2, 3])),
        ("r0", record_node(0)),
        ("r1", record_node(1)),
        ("r2", record_node(2)),
    ], "")  # fmt: skip


def to_model(w):
    recs = []
    sub_ms = False
    for i in range(w["count"]):
        r = w[f"r{i}"]
        if r["ts_us"] % 1000:
            sub_ms = True
        recs.append({"attributes": r["attributes"], "timestamp": r["ts_us"] // 1000, "ts_us": r["ts_us"],
                     "offset": r["offset"], "key": r["key"], "value": r["value"],
                     "headers": [list(h) for h in r["headers"]]})
    nb = {k: w[k] for k in ("producer_id", "producer_epoch", "partition_leader_epoch", "base_sequence",
                            "attributes")}
    nb["records"] = recs
    return nb, sub_ms


def in_domain(nb):
    base = nb["records"][0]["offset"]
    for r in nb["records"]:
        if not -(2**31) <= r["offset"] - base < 2**31 or not -(2**63) <= r["offset"] < 2**63:
            return False
    return True


_zones = None


def zone(name):
    global _zones
    if _zones is None:
        _zones = {"fixed+2": datetime.timezone(datetime.timedelta(hours=2)), "fixed-11:30": datetime.timezone(datetime.timedelta(hours=-11, minutes=-30))}
        try:
            import zoneinfo

            _zones["berlin"] = zoneinfo.ZoneInfo("Europe/Berlin")
        except Exception:  # noqa: BLE001 - no tz database: fall back to a fixed offset (the fold case is then not exercised)
            _zones["berlin"] = _zones["fixed+2"]
    return _zones[name]


def kio_record(r):
    from kio.records.schema import Record, RecordHeader

    ts = EPOCH + datetime.timedelta(microseconds=r["ts_us"])
    if r.get("zone"):
        ts = ts.astimezone(zone(r["zone"]))  # same instant, other wall clock (and fold)
    return Record(
        attributes=r["attributes"],
        timestamp=ts,
        offset=r["offset"],
        key=r["key"],
        value=r["value"],
        headers=tuple(RecordHeader(key=k, value=v) for k, v in r["headers"]),
    )


def kio_new_batch(nb):
    from kio.records.schema import NewRecordBatch

    return NewRecordBatch(
        producer_id=nb["producer_id"],
        producer_epoch=nb["producer_epoch"],
        partition_leader_epoch=nb["partition_leader_epoch"],
        base_sequence=nb["base_sequence"],
        attributes=nb["attributes"],
        records=tuple(kio_record(r) for r in nb["records"]),
    )


BATCH_FIELDS = ("base_offset", "partition_leader_epoch", "magic", "attributes", "last_offset_delta", "base_timestamp",
                "max_timestamp", "producer_id", "producer_epoch", "base_sequence", "batch_length", "crc")  # fmt: skip
REC_FIELDS = ("attributes", "timestamp", "offset", "key", "value", "headers")


def model_diff(exp, got, loose_ts=False, floor_us=None):
    """Name of the first field in which two batch models differ (None if equal).  With loose_ts,
    timestamps may be the floor or the floor+1 of the sub-millisecond input."""
    for f in BATCH_FIELDS:
        if exp[f] != got[f]:
            if loose_ts and f in ("base_timestamp", "max_timestamp", "crc", "batch_length") and (
                f in ("crc", "batch_length") or got[f] - exp[f] in (0, 1)
            ):
                continue
            return f
    if len(exp["records"]) != len(got["records"]):
        return "record-count"
    for i, (a, b) in enumerate(zip(exp["records"], got["records"])):
        for f in REC_FIELDS:
            if a[f] != b[f]:
                if loose_ts and f == "timestamp" and b[f] - a[f] in (0, 1):
                    continue
                return f"records.{f}"
    return None


def curated_batches():
    """Hand-written batches the lattice does not reach within k<=2: timestamps that are equal as wall-clock
    values but different instants (the repeated hour at the end of daylight saving time), mixed zones, a base
    timestamp off the whole second with deltas that carry over it, descending timestamps below the base."""
    def rec(ms, off, zone=None, **kw):
        return dict({"attributes": 0, "timestamp": ms, "ts_us": ms * 1000, "offset": off, "key": None, "value": b"v", "headers": [], "zone": zone}, **kw)

    hdr = {"producer_id": -1, "producer_epoch": -1, "partition_leader_epoch": 0, "base_sequence": -1, "attributes": 0}
    T = 1698539400000  # 2023-10-29T00:30:00Z = 02:30 CEST (fold=0); T + 1 h = 02:30 CET (fold=1)
    sets = [
        [rec(T, 0, "berlin"), rec(T + 3_600_000, 1, "berlin")],
        [rec(T + 3_600_000, 5, "berlin"), rec(T, 6, "berlin"), rec(T + 3_600_000, 7, "berlin")],
        [rec(T, 0, "berlin"), rec(T, 1, "fixed+2"), rec(T, 2)],
        [rec(1500, 10), rec(2100, 11), rec(2999, 12), rec(3000, 13), rec(1499, 14), rec(500, 15)],
        [rec(1_700_000_000_999, 0, "fixed-11:30"), rec(1_700_000_001_000, 1, "fixed+2"), rec(1_700_000_000_001, 2)],
        [rec(999, 0), rec(1000, 1), rec(1001, 2), rec(1999, 3), rec(2000, 4)],
        # a value beyond 1 MiB and 2 MiB (chunked checksumming / copying), and keys / values at the one-byte limit of the
        # zig-zag length (63 / 64 / 65 bytes)
        [rec(5000, 0, value=b"\xa7" * (2**21 + 4321)), rec(5001, 1, key=b"k" * 64, value=b"v" * 63), rec(5002, 2, key=b"k" * 63, value=b"v" * 65)],
        [rec(7000, 0, key=b"\x5a" * (2**20 + 1), value=b"")],
        # offset deltas at both ends of int32 (the second record 2^31 below / 2^31 - 1 above the first)
        [rec(8000, 2**31, value=b"a"), rec(8001, 0, value=b"b")],
        [rec(8000, 5, value=b"a"), rec(8001, 5 + 2**31 - 1, value=b"b")],
    ]
    return [dict(hdr, records=rs) for rs in sets]


def judge_c17(w, acc, order, model=None):
    from kio.records.writers import write_batch

    nb, sub_ms = (model, False) if model is not None else to_model(w)
    case = {"batch": w}
    if not in_domain(nb):
        acc.add("out_of_domain")
        acc.outcome("offset delta outside int32 (counted, not judged)")
        return
    acc.add("evaluations")
    exp_bytes, exp = refbatch.encode_new_batch(nb)
    buf = io.BytesIO()
    try:
        write_batch(buf, kio_new_batch(nb))
    except Exception as e:  # noqa: BLE001
        acc.report(violation("C17", "write", f"C17/writer-raised/{exc_name(e)}", "kio.records.writers:write_batch",
                             case, "a batch is written", repr(e)[:300], order))
        return
    out = buf.getvalue()
    # the same batch appended to a buffer that already holds data, and written to a write-only sink, must
    # give the same bytes (a batch is one element of a records blob / a stream)
    pre = b"\x00\xff\x7f" * 5
    for label, mk in (("appended-to-non-empty-buffer", lambda: io.BytesIO()), ("write-only-sink", lambda: streams.WriteOnlySink())):
        acc.add("evaluations")
        sink = mk()
        sink.write(pre)
        try:
            write_batch(sink, kio_new_batch(nb))
            got = sink.getvalue()[len(pre):]
            other = getattr(sink, "other", [])
        except Exception as e:  # noqa: BLE001
            acc.report(violation("C17", "write", f"C17/{label}/raised/{exc_name(e)}", "kio.records.writers:write_batch", case,
                                 "same bytes as on a fresh buffer", repr(e)[:300], order))
            return
        if got != out:
            acc.report(violation("C17", "write", f"C17/{label}/bytes-depend-on-the-buffer", "kio.records.writers:write_batch", case,
                                 out.hex()[:300], f"{got.hex()[:300]} other={other}", order))
            return
    try:
        got, used = refbatch.decode_batch(out)
    except refbatch.RefError as e:
        acc.report(violation("C17", "format", f"C17/not-a-v2-batch/{str(e).split(' ')[0]}",
                             "kio.records.writers:write_batch", case, exp_bytes.hex()[:400],
                             f"{e}: {out.hex()[:400]}", order))
        return
    if used != len(out):
        acc.report(violation("C17", "format", "C17/trailing-bytes", "kio.records.writers:write_batch", case,
                             f"{used} bytes", f"{len(out)} bytes", order))
        return
    d = model_diff(exp, got, loose_ts=sub_ms)
    if d is not None:
        acc.report(violation("C17", "content", f"C17/field-differs/{d}", "kio.records.writers:write_batch", case,
                             short({k: v for k, v in exp.items()}, 1200), short(got, 1200), order))
        return
    if not sub_ms and out != exp_bytes:
        raise HarnessError("reference decoder accepts bytes the reference encoder does not produce")
    acc.outcome("v2 batch, sub-ms input within floor/round" if sub_ms else "v2 batch, byte-identical to reference")


def writer_histories(acc):
    """The batch writer is a function of the batch alone: after a write that failed part-way - the sink raising at EVERY
    write call index, or a record with an ill-typed key / value / header dying mid-record - writing a good batch (new or
    read-back) gives exactly the bytes a fresh process gives.  Histories: good, (fail)*, good."""
    import dataclasses as dc

    from kio.records.readers import read_batch
    from kio.records.writers import write_batch

    goods = []
    for nb in curated_batches()[:4]:
        data, _ = refbatch.encode_new_batch({k: (v if k != "records" else [{kk: vv for kk, vv in r.items() if kk not in ("ts_us", "zone")} for r in v]) for k, v in nb.items()})
        goods.append((kio_new_batch(nb), data))
    prepared = [(read_batch(io.BytesIO(d)), None) for _, d in goods[:2]]
    for i, (rb, _) in enumerate(prepared):
        b = io.BytesIO()
        write_batch(b, rb)
        prepared[i] = (rb, b.getvalue())  # golden of the read-back batch = what the writer gives before any failure
    subjects = goods + prepared

    def bads(batch):
        recs = batch.records
        out = []
        for pos in range(len(recs)):
            for field, val in (("value", "not-bytes"), ("key", 12), ("headers", (("k", "v"),)), ("offset", "x")):
                out.append(dc.replace(batch, records=recs[:pos] + (dc.replace(recs[pos], **{field: val}),) + recs[pos + 1:]))
        return out

    n = 0
    for si, (batch, golden) in enumerate(subjects):
        s = streams.WriteOnlySink()
        try:
            write_batch(s, batch)
            ncalls = len(s.calls)
        except Exception as e:  # noqa: BLE001 - judged by the buffer-context part; here only the histories are lost
            ncalls = 0
            acc.caps.append(f"writer histories of subject {si}: no stream failures, the writer does not run on a write-only sink ({exc_name(e)})")
        failures = [("io", j) for j in range(ncalls)] + [("bad", b) for b in bads(batch)]
        for kind, what in failures:
            n += 1
            acc.add("evaluations")
            acc.add("states")
            acc.add("distinct_nontrivial")
            acc.add("writer_histories")
            case = {"subject": si, "failure": [kind, what if kind == "io" else "ill-typed record member"]}
            try:
                if kind == "io":
                    write_batch(streams.WriteOnlySink(fail_at=what), batch)
                    raised = False
                else:
                    write_batch(io.BytesIO(), what)
                    raised = False
            except Exception:  # noqa: BLE001
                raised = True
            if kind == "io" and not raised:
                acc.report(violation("C17", "history", "C17/history/stream-error-swallowed", "kio.records.writers:write_batch", case,
                                     "the stream's error propagates", "no exception", (8, n)))
                continue
            for sj, (other, gold2) in enumerate(subjects):
                b = io.BytesIO()
                try:
                    write_batch(b, other)
                    got = b.getvalue()
                except Exception as e:  # noqa: BLE001
                    got = repr(e).encode()
                if got != gold2:
                    acc.report(violation("C17", "history", "C17/history/batch-bytes-depend-on-an-earlier-failed-write", "kio.records.writers:write_batch",
                                         dict(case, then_subject=sj), gold2.hex()[:300], got.hex()[:300], (8, n)))
                    break
            else:
                acc.outcome("batch writer unaffected by an earlier failed write")


def explore_batches(k):
    tree = batch_tree()
    seen = set()
    n = 0
    for cost, w, edits in values.gen(tree, k):
        n += 1
        view = dict(w)
        for i in range(w["count"], 3):
            view.pop(f"r{i}")
        h = hash(values.freeze(view))
        if h in seen:
            continue
        seen.add(h)
        yield cost, view, edits
    if n != sum(values.poly(tree, k)):
        raise HarnessError("batch enumeration count disagrees with the counting formula")


def _task_c17(arg):
    items = arg
    acc = Acc()
    for n, (cost, w, edits) in items:
        acc.add("states")
        acc.add("transitions", cost)
        if cost:
            acc.add("distinct_nontrivial")
        judge_c17(w, acc, (cost, n))
        if cost == 2 and len(acc.samples) < 1:
            acc.sample({"edits": [list(e) for e in edits], "batch": short(w, 300)})
    return acc.result()


def self_check():
    from pins.record_batches_v2 import BATCHES

    for b in BATCHES:
        m, used = refbatch.decode_batch(b)
        nb = {k: m[k] for k in ("producer_id", "producer_epoch", "partition_leader_epoch", "base_sequence",
                                "attributes", "records")}
        out, _ = refbatch.encode_new_batch(nb)
        if used != len(b) or out != b:
            raise HarnessError("reference batch model does not reproduce a real-broker fixture")
    return len(BATCHES)


def run_c17(tier):
    run = Run("C17", tier, "model_checking")
    run.notes["real_broker_fixtures_reproduced_by_model"] = self_check()
    k = 2 if tier == "quick" else 3
    items = list(enumerate(explore_batches(k)))
    run.rng.shuffle(items)
    for res in pmap(_task_c17, chunks(items, max(1, len(items) // 64))):
        run.merge(res)
    hacc = Acc()
    writer_histories(hacc)
    run.merge(hacc.result())
    cacc = Acc()
    for n, nb in enumerate(curated_batches()):
        cacc.add("states")
        cacc.add("distinct_nontrivial")
        cacc.add("curated_batches")
        judge_c17({"curated": n, "records": [[r["timestamp"], r["offset"], r.get("zone")] for r in nb["records"]]}, cacc, (9, n), model=nb)
    run.merge(cacc.result())
    c = run.cov
    c["traces_validated_against_impl"] = c.get("evaluations", 0)
    c["rule"] = (
        "hand-written batches (wall-clock-equal timestamps that are different instants in the repeated hour of a "
        "daylight-saving zone, mixed zones, deltas carrying over the second, timestamps below the base) and "
        f"all NewRecordBatch values within k<={k} deviations of a base batch over boundary alphabets: 1-3 "
        "records; offsets ascending/equal/descending/sparse/near the int32 delta limit; timestamps "
        "whole-millisecond (equal, descending, far apart, last ms of year 9999) and sub-millisecond; "
        "key/value null/empty/1/63/64/8191/8192 bytes; 0-3 headers with null/empty parts; attributes, "
        "producer id/epoch, sequence, leader epoch at their integer limits. One state = one distinct batch; "
        "each is written by kio and decoded/compared by the independent batch model (own zig-zag, own CRC-32C)"
    )
    c["exhaustive"] = True
    c["bounds"] = {"k": k, "records": "1..3"}
    run.assumptions += [
        "reference batch model kverif/refbatch.py (validated on the CRC-32C check value and on four real-broker batches)",
        "sub-millisecond input timestamps may land on the floor or the next millisecond (the property does not choose)",
    ]
    return run.finish()


# ---------------------------------------------------------------------------------------
# C18
# ---------------------------------------------------------------------------------------
CRC_OFF = 17  # 8 base offset + 4 length + 4 leader epoch + 1 magic
MAGIC_OFF = 16


def read_with_budget(data):
    from kio.records.readers import read_batch

    src = io.BytesIO(data)
    b = streams.decode_budget()
    b.arm(budget_for(len(data)) + 2000)
    try:
        out = read_batch(src)
        return "returned", out, src.tell()
    except streams.BudgetExceeded:
        return "budget", None, None
    except BaseException as e:  # noqa: BLE001
        if isinstance(e, (KeyboardInterrupt, SystemExit)):
            raise
        return "raised", e, None
    finally:
        b.disarm()


def batch_to_model(rb):
    """kio RecordBatch -> model dict; timestamps in integer microseconds -> ms if exact."""
    recs = []
    for r in rb.records:
        us = (r.timestamp - EPOCH) // datetime.timedelta(microseconds=1)
        recs.append({"attributes": r.attributes, "timestamp": us / 1000 if us % 1000 else us // 1000,
                     "offset": r.offset, "key": r.key, "value": r.value,
                     "headers": [[h.key, h.value] for h in r.headers]})
    m = {f: getattr(rb, f) for f in BATCH_FIELDS if f != "magic"}
    m["magic"] = rb.magic
    m["records"] = recs
    return m


def judge_c18(data, model, label, faults, acc, order):
    from kio.records.writers import write_batch

    case = {"batch_hex": data, "source": label}
    # identity
    acc.add("evaluations")
    res, val, pos = read_with_budget(data + b"\x5a")
    if res != "returned":
        acc.report(violation("C18", "faithful-read", f"C18/faithful-read/rejected/{exc_name(val) if val else 'budget'}",
                             "kio.records.readers:read_batch", case, "a well-formed batch is read",
                             repr(val)[:300], order))
        return
    try:
        got = batch_to_model(val)
    except Exception as e:  # noqa: BLE001
        acc.report(violation("C18", "faithful-read", "C18/faithful-read/ill-typed-result",
                             "kio.records.readers:read_batch", case, short(model, 800), repr(e)[:300], order))
        return
    d = model_diff(model, got)
    ts_only_seconds = False
    if d == "records.timestamp":
        # is it exactly "truncated to a whole second, everything else equal"?
        patched = dict(got, records=[dict(r) for r in got["records"]])
        ok = True
        for a, b in zip(model["records"], patched["records"]):
            if b["timestamp"] == a["timestamp"] // 1000 * 1000:
                b["timestamp"] = a["timestamp"]
            else:
                ok = False
        ts_only_seconds = ok and model_diff(model, patched) is None
    if d is not None:
        sig = ("C18/faithful-read/record-timestamp-truncated-to-whole-second" if ts_only_seconds
               else f"C18/faithful-read/field-differs/{d}")
        acc.report(violation("C18", "faithful-read", sig, "kio.records.readers:read_batch", case,
                             short(model, 1000), short(got, 1000), order))
    elif pos != len(data):
        acc.report(violation("C18", "faithful-read", "C18/faithful-read/consumed-wrong-length",
                             "kio.records.readers:read_batch", case, f"position {len(data)}", f"position {pos}", order))
    else:
        acc.outcome("read faithfully")
    # rewrite identity
    buf = io.BytesIO()
    try:
        write_batch(buf, val)
        out = buf.getvalue()
    except Exception as e:  # noqa: BLE001
        acc.report(violation("C18", "rewrite", f"C18/rewrite/raised/{exc_name(e)}", "kio.records.writers:write_batch",
                             case, "the batch that was read can be written back", repr(e)[:300], order))
        out = None
    if out is not None and out != data:
        sig = "C18/rewrite/bytes-differ"
        if ts_only_seconds:
            trunc = dict(model, records=[dict(r, timestamp=r["timestamp"] // 1000 * 1000) for r in model["records"]])
            if out == refbatch.encode_prepared(trunc):
                sig = "C18/rewrite/bytes-differ-only-by-truncated-record-timestamps"
        acc.report(violation("C18", "rewrite", sig, "kio.records.writers:write_batch", case, data.hex()[:600],
                             out.hex()[:600], order))
    elif out is not None:
        acc.outcome("rewritten identically")
    if not faults:
        return
    # damage: every single-bit flip from the CRC field to the end, every truncation, wrong magic
    def must_raise(bad, kind, where):
        acc.add("evaluations")
        acc.add("fault_cases")
        r, v, _ = read_with_budget(bad)
        if r == "raised":
            acc.outcome(f"damage rejected/{exc_name(v)}")
            return
        what = "returned a batch" if r == "returned" else "step budget exceeded"
        acc.report(violation("C18", kind, f"C18/{kind}/{'accepted' if r == 'returned' else 'hang'}",
                             "kio.records.readers:read_batch", dict(case, fault=[kind, where]),
                             "reading fails with an error", what, order + (where if isinstance(where, int) else 0,)))

    if faults == "sparse":
        # a batch of megabytes: damage at the checksum, at both ends of the checksummed part and around every
        # mebibyte inside it; truncation just before the end, at every mebibyte and in the middle
        marks = sorted({CRC_OFF, CRC_OFF + 3, CRC_OFF + 4, CRC_OFF + 5, len(data) - 1, len(data) - 2, len(data) // 2}
                       | {o for m in range(2**20, len(data), 2**20) for o in (m - 1, m, m + 1, CRC_OFF + 4 + m - 1, CRC_OFF + 4 + m) if o < len(data)})
        for off in marks:
            for bit in (0, 7):
                bad = bytearray(data)
                bad[off] ^= 1 << bit
                must_raise(bytes(bad), "bit-flip", off * 8 + bit)
        for cut in sorted({len(data) - 1, len(data) - 2, len(data) - 1000, len(data) // 2} | set(range(2**20, len(data), 2**20))):
            must_raise(data[:cut], "truncation", cut)
        return
    for off in range(CRC_OFF, len(data)):
        for bit in range(8):
            bad = bytearray(data)
            bad[off] ^= 1 << bit
            must_raise(bytes(bad), "bit-flip", off * 8 + bit)
    # byte-wide damage (a burst of up to 8 bits, which CRC-32C always detects)
    for off in range(CRC_OFF, len(data)):
        for v in {0x00, 0xFF, data[off] ^ 0xFF, (data[off] + 1) & 0xFF} - {data[off]}:
            bad = bytearray(data)
            bad[off] = v
            must_raise(bytes(bad), "byte-overwrite", off)
    for cut in range(len(data)):
        must_raise(data[:cut], "truncation", cut)
    for mg in (0, 1, 3, 0xFF):
        bad = bytearray(data)
        bad[MAGIC_OFF] = mg
        must_raise(bytes(bad), "magic", mg)


def _task_c18(arg):
    acc = Acc()
    for n, (label, data, model, faults) in arg:
        acc.add("batches")
        judge_c18(data, model, label, faults, acc, (n,))
        if len(acc.samples) < 1 and faults:
            acc.sample({"batch": data.hex()[:160], "len": len(data),
                        "faults": f"{(len(data) - CRC_OFF) * 8} bit flips, {len(data)} truncations, 4 magic bytes"})
    return acc.result()


def run_c18(tier):
    from pins.record_batches_v2 import BATCHES

    run = Run("C18", tier, "fault_enumeration")
    run.notes["real_broker_fixtures_reproduced_by_model"] = self_check()
    items = []
    for i, b in enumerate(BATCHES):
        m, _ = refbatch.decode_batch(b)
        items.append((f"real-broker fixture {i}", b, m, True))
    k = 1 if tier == "quick" else 2
    big = 0
    for cost, w, edits in explore_batches(k):
        nb, sub_ms = to_model(w)
        if sub_ms or not in_domain(nb):
            continue
        data, model = refbatch.encode_new_batch(nb)
        # all faults on small batches; identity only on the 8 KiB-payload ones (cost, not soundness)
        faults = len(data) <= 400 and (cost <= 1 or tier == 'thorough')
        if not faults:
            big += 1
        items.append((f"reference-encoded batch, edits={[list(e) for e in edits]}", data, model, faults))
    run.notes["batches_identity_only"] = big
    # batches that a NewRecordBatch cannot express: zero records (left behind by log compaction),
    # base offset / timestamps not derived from the records
    extra = 0
    for ple, attrs, lod, bo in itertools.product((0, 7), (0, 16), (0, 41), (0, 2**40)):
        for recs in ([], [{"attributes": 0, "timestamp": 5000, "offset": bo + 3, "key": None, "value": b"v", "headers": []}]):
            m = {"base_offset": bo, "partition_leader_epoch": ple, "attributes": attrs, "last_offset_delta": lod,
                 "base_timestamp": 1000, "max_timestamp": 9000, "producer_id": -1, "producer_epoch": -1,
                 "base_sequence": -1, "records": recs}
            data, model = refbatch.encode_model(m)
            back, used = refbatch.decode_batch(data)
            if back != model or used != len(data):
                raise HarnessError("reference batch model is not self-consistent on a hand-built batch")
            items.append((f"hand-built batch, {len(recs)} records, base_offset={bo}", data, model, True))
            extra += 1
    run.notes["hand_built_batches_incl_empty"] = extra
    for n, nb in enumerate(curated_batches()):
        data, model = refbatch.encode_new_batch({k: (v if k != "records" else [{kk: vv for kk, vv in r.items() if kk not in ("ts_us", "zone")} for r in v]) for k, v in nb.items()})
        items.append((f"curated batch {n}", data, model, True if len(data) <= 4000 else "sparse"))
    items = list(enumerate(items))
    run.rng.shuffle(items)
    for res in pmap(_task_c18, chunks(items, max(1, len(items) // 64))):
        run.merge(res)
    c = run.cov
    c["distinct_nontrivial"] = c.get("fault_cases", 0)
    c["rule"] = (
        f"every reference-encoded batch within k<={k} deviations of the base batch (whole-millisecond "
        "timestamps) and the four real-broker fixtures: identity read (header fields, records, exact "
        "consumption) and rewrite identity; on every batch of at most 400 bytes within k<=1 (thorough: k<=2), every "
        "single-bit flip and 3-4 byte-wide overwrites per offset from the first CRC byte to the end, every truncation point and magic in "
        "{0,1,3,-1}; each (batch, fault) is a distinct fault case and must make read_batch raise"
    )
    c["exhaustive"] = True
    c["bounds"] = {"k": k}
    run.assumptions += ["reference batch model kverif/refbatch.py", "CRC-32C detects every single-bit error, so 'must raise' is exact"]
    return run.finish()


def replay(prop, path):
    rec = json.load(open(path))
    case = from_json(rec["case"])
    acc = Acc()
    if prop == "C17":
        cur = case["batch"].get("curated") if isinstance(case["batch"], dict) else None
        judge_c17(case["batch"], acc, (0,), model=(curated_batches()[cur] if cur is not None else None))
    else:
        data = case["batch_hex"]
        m, _ = refbatch.decode_batch(data)
        judge_c18(data, m, case.get("source", "replay"), True if len(data) <= 4000 else "sparse", acc, (0,))
    res = acc.result()
    # the recorded violation, or any other one that is not a listed known finding (D4b shows on every batch with
    # sub-second timestamps on the unchanged tree)
    from ..core import finding_matches, load_known_findings

    known = load_known_findings(prop)
    hit = [v for v in res["violations"] if v["signature"] == rec["signature"]] or \
          [v for v in res["violations"] if not any(finding_matches(k, v) for k in known)]
    if hit:
        v = hit[0]
        print(f"VIOLATION property={prop} replay={path}")
        print(f"  signature={v['signature']}\n  expected: {v['expected'][:400]}\n  observed: {v['observed'][:400]}")
        return 1
    print(f"replay {path}: no violation on the current tree")
    return 0
