"""Configuration sweeps, each exhaustive over the finite configuration space:
C08 header schema / pairing, C13 entity descriptions, C14 version families."""

from __future__ import annotations

import dataclasses
import datetime
import json
import os
import uuid

from ..core import ROOT, Acc, HarnessError, Run, exc_name, pmap, violation
from ..schema_walk import SchemaContractError, all_classes, disk_modules, wire_schema

PIN_APIS = os.path.join(ROOT, "pins", "kafka-3.9.0-apis.json")


def cv(cls, name):
    """class constant or None (a payload class that lost a constant is judged, it must not crash the sweep)"""
    return getattr(cls, name, None)


def pin_apis():
    return json.load(open(PIN_APIS))


def reachable(cls, seen=None):
    """cls and every dataclass reachable through its field annotations."""
    seen = [] if seen is None else seen
    if cls in seen:
        return seen
    seen.append(cls)
    try:
        ws = wire_schema(cls)
    except SchemaContractError:
        return seen
    for f in ws.fields:
        if f.nested is not None:
            reachable(f.nested.cls, seen)
    return seen


def top_level(mod, typ):
    from ..schema_walk import module_classes

    tops = [c for c in module_classes(mod) if getattr(c.__dict__.get("__type__"), "name", None) == typ]
    return tops


def modules_by_key():
    """{(api, version, type): (module, [classes defined in it])}"""
    out = {}
    for api, ver, typ, mod, cls in all_classes():
        out.setdefault((api, ver, typ), (mod, []))[1].append(cls)
    return out


# ---------------------------------------------------------------------------------------
# C08
# ---------------------------------------------------------------------------------------
def expected_header(typ, api_key, version, flexible):
    """The rule of Kafka's ApiMessageTypeGenerator, restated: -> (module path, class name)."""
    if typ == "request":
        if api_key == 7 and version == 0:
            v = 0
        else:
            v = 2 if flexible else 1
        return f"kio.schema.request_header.v{v}.header", "RequestHeader", v
    if api_key == 18:
        v = 0
    else:
        v = 1 if flexible else 0
    return f"kio.schema.response_header.v{v}.header", "ResponseHeader", v



def pairing_pass(acc, index, mods, payloads, order_name):
    """request <-> response lookups for every payload class.  order_name 'class-first': look up with the class,
    then with an instance; 'instance-first': the other way round (a lookup must not depend on what was looked up
    before, nor on whether a class or an instance was passed first)."""
    from .. import bridge, values

    for api, ver, typ, mod, top in payloads:
        other_typ = "response" if typ == "request" else "request"
        other = mods.get((api, ver, other_typ))
        case = {"class": f"{top.__module__}:{top.__qualname__}", "order": order_name}
        if other is None:
            acc.report(violation("C08", "pairing", "C08/no-counterpart", case["class"], case, f"a {other_typ} for {api} v{ver}", "none", (api, ver)))
            continue
        otop = top_level(other[0], other_typ)[0]
        acc.add("evaluations")
        if (cv(top, '__api_key__'), cv(top, '__flexible__')) != (cv(otop, '__api_key__'), cv(otop, '__flexible__')) or cv(top, '__api_key__') is None:
            acc.report(violation("C08", "pairing", "C08/request-response-disagree", case["class"], case,
                                 f"{cv(otop, '__api_key__')}/{cv(otop, '__flexible__')}", f"{cv(top, '__api_key__')}/{cv(top, '__flexible__')}", (api, ver)))
        fwd, back = ((index.load_response_from_request, index.load_request_from_response) if typ == "request"
                     else (index.load_request_from_response, index.load_response_from_request))
        try:
            inst = bridge.to_entity(wire_schema(top), values.base_value(values.build(wire_schema(top), "value", 16)))
        except bridge.OutOfDomain:
            inst = None
        try:
            if order_name == "instance-first" and inst is not None:
                inst_there = fwd(inst)
                there = fwd(top)
            else:
                there = fwd(top)
                inst_there = fwd(inst) if inst is not None else otop
            again = back(there)
            again2 = back(inst_there)
        except Exception as e:  # noqa: BLE001
            acc.report(violation("C08", "pairing", f"C08/pairing-lookup-raised/{exc_name(e)}", case["class"], case,
                                 "lookup succeeds", repr(e)[:300], (api, ver)))
            continue
        if there is not otop or inst_there is not otop or again is not top or again2 is not top:
            acc.report(violation("C08", "pairing", "C08/pairing-not-mutually-inverse", case["class"], case,
                                 f"{otop!r} and back to {top!r}", f"{there!r}, via instance {inst_there!r}, back {again!r} / {again2!r}"[:600], (api, ver)))
        else:
            acc.outcome(f"pairing inverse (class and instance, {order_name})")


def run_c08(tier):
    from kio import index

    run = Run("C08", tier, "exploration")
    acc = Acc(max_samples=6)
    pins = pin_apis()
    mods = modules_by_key()
    n_payload = 0
    n_classes_checked = 0
    payloads = []
    for (api, ver, typ), (mod, classes) in sorted(mods.items()):
        if typ not in ("request", "response"):
            continue
        pin = pins.get(api, {}).get("types", {}).get(typ)
        tops = top_level(mod, typ)
        if len(tops) != 1:
            acc.report(violation("C08", "module", "C08/not-exactly-one-payload-class", mod.__name__, {"module": mod.__name__},
                                 "one top-level payload class", str([c.__name__ for c in tops]), (api, ver)))
            continue
        top = tops[0]
        n_payload += 1
        if pin is None or not pin["min"] <= ver <= pin["max"]:
            acc.report(violation("C08", "pin", "C08/version-not-in-pinned-api-table", mod.__name__, {"module": mod.__name__},
                                 f"pinned range {pin}", f"version {ver}", (api, ver)))
            continue
        flexible = pin["first_flexible"] is not None and ver >= pin["first_flexible"]
        key = pins[api]["key"]
        hmod, hname, hver = expected_header(typ, key, ver, flexible)
        for cls in reachable(top):
            acc.add("evaluations")
            n_classes_checked += 1
            case = {"class": f"{cls.__module__}:{cls.__qualname__}", "api_key": key, "version": ver, "type": typ,
                    "flexible_per_pinned_table": flexible}
            h = cls.__dict__.get("__header_schema__", getattr(cls, "__header_schema__", None))
            got = (getattr(h, "__module__", None), getattr(h, "__name__", None))
            if got != (hmod, hname):
                acc.report(violation("C08", "header", f"C08/wrong-header-schema/{typ}", case["class"], case,
                                     f"{hmod}:{hname}", f"{got[0]}:{got[1]}", (api, ver, cls.__name__)))
                continue
            if getattr(h, "__version__", None) != hver or getattr(h, "__flexible__", None) != (hver == (2 if typ == "request" else 1)):
                acc.report(violation("C08", "header", "C08/header-class-constants", case["class"], case,
                                     f"version {hver}", f"{getattr(h, '__version__', None)}/{getattr(h, '__flexible__', None)}", (api, ver, cls.__name__)))
                continue
            if cls.__dict__.get("__api_key__") != key or cls.__dict__.get("__flexible__") is not flexible:
                acc.report(violation("C08", "constants", "C08/api-key-or-flexibility-differs-from-pinned-table", case["class"], case,
                                     f"api_key={key} flexible={flexible}",
                                     f"api_key={cls.__dict__.get('__api_key__')} flexible={cls.__dict__.get('__flexible__')}", (api, ver, cls.__name__)))
                continue
            acc.outcome(f"{typ} header v{hver}")
        payloads.append((api, ver, typ, mod, top))
        if len(acc.samples) < 6 and ver == pin["max"]:
            acc.sample({"class": case["class"], "expected_header": f"{hmod}:{hname}", "flexible": flexible})
    import importlib

    for order_name in ("class-first", "instance-first"):
        importlib.reload(index)  # a fresh module: nothing looked up before
        pairing_pass(acc, index, mods, payloads, order_name)
    importlib.reload(index)
    # histories: every sequence up to length 5 over the pairing lookups of three classes (two requests of different
    # flexibility and header version, one response), revisits included; each call is judged by its own argument
    import itertools

    def top_of(api, ver, typ):
        return top_level(mods[(api, ver, typ)][0], typ)[0]

    letters = [(index.load_response_from_request, top_of("fetch", 4, "request"), top_of("fetch", 4, "response")),
               (index.load_response_from_request, top_of("produce", 9, "request"), top_of("produce", 9, "response")),
               (index.load_request_from_response, top_of("metadata", 12, "response"), top_of("metadata", 12, "request"))]
    nseq = 0
    for d in range(1, 6):
        for seq in itertools.product(range(len(letters)), repeat=d):
            nseq += 1
            acc.add("evaluations")
            for step, li in enumerate(seq):
                fn, arg, want = letters[li]
                try:
                    got = fn(arg)
                except Exception as e:  # noqa: BLE001
                    got = e
                if got is not want:
                    acc.report(violation("C08", "pairing", "C08/pairing-depends-on-earlier-lookups", f"{arg.__module__}:{arg.__qualname__}",
                                         {"lookup_history": [[letters[i][0].__name__, letters[i][1].__module__] for i in seq], "step": step},
                                         repr(want), repr(got)[:300], (d, nseq)))
                    break
            else:
                acc.outcome("pairing unaffected by earlier lookups")
    acc.add("pairing_histories", nseq)
    importlib.reload(index)
    run.merge(acc.result())
    c = run.cov
    c["payload_classes"] = n_payload
    c["distinct_nontrivial"] = n_classes_checked + 2 * n_payload  # distinct classes whose header was judged + distinct (pairing, order)
    c["rule"] = ("every request and response module on disk: the top-level payload class and every class reachable "
                 "from it through field types; expected header from the independently restated Kafka rule applied to "
                 "the pinned API table (key, version range, first flexible version), not to the class's own constants; "
                 "request/response agreement; load_response_from_request / load_request_from_response mutually inverse "
                 "on classes and on instances, in two passes on a freshly reloaded kio.index: class looked up first, then instance, and "
                 "instance first, then class; every sequence up to length 5 over the pairing lookups of three classes, revisits included. Each (class, check) is one evaluation")
    c["exhaustive"] = True
    run.assumptions += ["pins/kafka-3.9.0-apis.json (derived from the baseline tree, spot-checked against the 3.9.0 protocol tables)"]
    if n_payload < 600:
        raise HarnessError(f"only {n_payload} payload classes found")
    return run.finish()


# ---------------------------------------------------------------------------------------
# C13
# ---------------------------------------------------------------------------------------
def type_table():
    from kio.schema.errors import ErrorCode
    from kio.static import primitive as p

    return {
        "int8": (p.i8, False), "int16": (p.i16, False), "int32": (p.i32, False), "int64": (p.i64, False),
        "uint8": (p.u8, False), "uint16": (p.u16, False), "uint32": (p.u32, False), "uint64": (p.u64, False),
        "float64": (p.f64, False), "string": (str, True), "bytes": (bytes, True), "records": (p.Records, True),
        "uuid": (uuid.UUID, True), "bool": (bool, False), "error_code": (ErrorCode, False),
        "timedelta_i32": (p.i32Timedelta, False), "timedelta_i64": (p.i64Timedelta, False),
        "datetime_i64": (p.TZAware, True),
    }  # fmt: skip


IMPLICIT_ZERO = {"int8", "int16", "int32", "int64", "uint8", "uint16", "uint32", "uint64", "float64", "string",
                 "bytes", "uuid", "timedelta_i32", "timedelta_i64", "datetime_i64"}


def default_resolvable(f):
    if f.has_default:
        return True
    if f.array or f.nullable:
        return False
    if f.nested is not None:
        return all(default_resolvable(g) for g in f.nested.fields)
    return f.kafka_type in IMPLICIT_ZERO


def value_inhabits(f, v, table):
    """Is python value v an inhabitant of field f's declared (scalar) type?"""
    if v is None:
        return f.nullable if not f.array else False
    if f.nested is not None:
        return type(v) is f.nested.cls
    base = table[f.kafka_type][0]
    try:
        return isinstance(v, f.pytype) and isinstance(v, base)
    except TypeError:
        return False


def strictly_inhabits(f, v, table):
    """value_inhabits, and bool is not taken for an integer or float nor an integer for a bool"""
    if v is not None and f.nested is None:
        if (f.kafka_type == "bool") != (type(v) is bool):
            return False
    return value_inhabits(f, v, table)


def _resolved_defaults_task(order_name):
    """The defaults the LIBRARY resolves for tagged fields, observed through the derived reader: decode, for every
    flexible class, the encoding that carries no tagged field at all; every tagged field of the result must hold a
    value of its declared type, equal to the default E1 reads from the description.  Classes are visited in the
    given order in a fresh process (a resolution that shares state between classes depends on the order)."""
    import io

    from kio.serial import entity_reader

    from .. import bridge, refcodec, values

    acc = Acc(max_samples=2)
    table = type_table()
    classes = all_classes()
    if order_name == "reverse":
        classes = list(reversed(classes))
    n = 0
    for api, ver, typ, mod, cls in classes:
        path = f"{cls.__module__}:{cls.__qualname__}"
        try:
            ws = wire_schema(cls)
        except SchemaContractError:
            continue  # reported by the main pass
        if not ws.flexible or not ws.tagged:
            continue
        n += 1
        base = dict(values.base_value(values.build(ws, "value", 8)))
        for f in ws.tagged:
            base[f.name] = bridge.wire_default(f)  # every tagged field at its described default: none is on the wire
        lay = refcodec.encode(ws, base, bridge.wire_default)
        enc = bytes(lay.buf)
        if any(k == "tag" and p.count(".") == 1 for _, _, k, p in lay.spans):
            raise HarnessError(f"{path}: the encoding meant to carry no tagged field carries one")
        o = (order_name, n)
        case = {"class": path, "order": order_name, "encoding": enc.hex()[:200]}
        try:
            dec = entity_reader(cls)(io.BytesIO(enc))
        except Exception as e:  # noqa: BLE001
            acc.report(violation("C13", "resolved-default", f"C13/resolved-default/decode-without-tagged-fields-raised/{exc_name(e)}",
                                 path, case, "decodes", repr(e)[:300], o))
            continue
        for f in ws.tagged:
            acc.add("evaluations")
            acc.add("resolved_defaults")
            v = getattr(dec, f.name)
            if f.array:
                ok = (v is None and f.nullable) or (isinstance(v, tuple) and all(strictly_inhabits(f, x, table) for x in v))
            else:
                ok = strictly_inhabits(f, v, table)
            if not ok:
                acc.report(violation("C13", "resolved-default", f"C13/resolved-default/does-not-inhabit-type/{f.kafka_type or 'struct'}",
                                     path, dict(case, field=f.name), repr(f.annotation), f"{v!r} ({type(v).__name__})"[:300], o))
                continue
            try:
                if f.array:
                    got = None if v is None else [bridge.from_entity(f.nested, x) if f.nested is not None else bridge.scalar_from_py(f, x) for x in v]
                elif f.nested is not None:
                    got = None if v is None else bridge.from_entity(f.nested, v)
                else:
                    got = bridge.scalar_from_py(f, v)
                want = base[f.name]
                same = bridge.same_wire(got, want, zero_sign=False)
            except bridge.OutOfDomain as e:
                got, want, same = str(e), base[f.name], False
            if not same:
                acc.report(violation("C13", "resolved-default", f"C13/resolved-default/differs-from-description/{f.kafka_type or 'struct'}",
                                     path, dict(case, field=f.name), repr(want)[:300], repr(got)[:300], o))
                continue
            acc.outcome(f"resolved default inhabits type ({order_name} order)")
    return acc.result()


def run_c13(tier):
    from kio.serial import entity_reader, entity_writer

    try:
        from kio.serial import _introspect

        second_reading = all(hasattr(_introspect, n) for n in ("classify_field", "is_optional", "get_field_tag", "get_schema_field_type",
                                                                "EntityField", "EntityTupleField"))
    except ImportError:
        _introspect, second_reading = None, False
    run = Run("C13", tier, "exploration")
    run.notes["second_reading_of_descriptions"] = "kio.serial._introspect" if second_reading else "unavailable (private helpers not found), sub-check skipped"
    # before anything is derived in this process: the library's resolved tagged defaults, in two derivation orders
    for res in pmap(_resolved_defaults_task, ["forward", "reverse"], procs=2):
        run.merge(res)
    acc = Acc(max_samples=5)
    table = type_table()
    nfields = 0
    for api, ver, typ, mod, cls in all_classes():
        path = f"{cls.__module__}:{cls.__qualname__}"
        case = {"class": path}
        try:
            ws = wire_schema(cls)
        except SchemaContractError as e:
            acc.report(violation("C13", "contract", "C13/metadata-contract-violated", path, case,
                                 "fields follow the documented metadata contract", str(e)[:300], (api, ver, cls.__name__)))
            continue
        tags = {}
        for f, df in zip(ws.fields, dataclasses.fields(cls)):
            nfields += 1
            acc.add("evaluations")
            fc = dict(case, field=f.name)
            o = (api, ver, cls.__name__, f.name)

            def bad(sig, exp, obs):
                acc.report(violation("C13", "field", f"C13/{sig}", path, fc, exp, obs, o))

            if f.nested is None:
                base, has_null = table[f.kafka_type]
                if not (isinstance(f.pytype, type) and issubclass(f.pytype, base)):
                    bad(f"python-type-does-not-match-kafka-type/{f.kafka_type}", f"a subclass of {base.__name__}", repr(f.pytype))
                    continue
                # a custom subclass must denote the same value range as the Kafka type (i32 is a subclass of
                # i64, so the subclass test alone would accept a 32-bit type for an int64 field)
                if hasattr(base, "__low__") and (getattr(f.pytype, "__low__", None), getattr(f.pytype, "__high__", None)) != (base.__low__, base.__high__):
                    bad(f"python-type-range-differs-from-kafka-type/{f.kafka_type}", f"[{base.__low__}, {base.__high__}]",
                        f"{f.pytype.__name__}: [{getattr(f.pytype, '__low__', None)}, {getattr(f.pytype, '__high__', None)}]")
                    continue
                if f.pytype is not base and f.pytype.__module__ == "kio.schema.types" and f.pytype.__mro__[1] is not base:
                    bad(f"custom-type-base-differs-from-kafka-type/{f.kafka_type}", base.__name__, f.pytype.__mro__[1].__name__)
                    continue
                if f.kafka_type == "uuid" and not (f.item_nullable if f.array else f.nullable):
                    pass  # a non-nullable uuid annotation would still be coherent
                null_here = f.item_nullable if f.array else f.nullable
                if null_here and not has_null and not (f.tag is not None and f.has_default and f.default is None):
                    bad(f"nullable-without-wire-null/{f.kafka_type}", "only types with a wire-level null are nullable", repr(f.annotation))
                    continue
                if f.array and f.nullable and False:
                    pass
            else:
                if f.array and f.item_nullable:
                    bad("array-of-nullable-structs", "struct array items are not nullable", repr(f.annotation))
                    continue
            if f.has_default:
                d = f.default
                if f.array:
                    ok = (d is None and f.nullable) or (isinstance(d, tuple) and all(value_inhabits(f, x, table) or (x is None and f.item_nullable) for x in d))
                else:
                    ok = value_inhabits(f, d, table)
                if not ok:
                    bad("default-does-not-inhabit-type", repr(f.annotation), repr(d)[:200])
                    continue
                try:
                    hash(d)
                except TypeError:
                    bad("default-is-mutable", "hashable immutable default", repr(d)[:200])
                    continue
            if f.tag is not None:
                if f.tag < 0:
                    bad("negative-tag", ">= 0", str(f.tag))
                    continue
                if f.tag in tags:
                    bad("duplicate-tag", "unique tags per class", f"tag {f.tag} on {tags[f.tag]} and {f.name}")
                    continue
                tags[f.tag] = f.name
                if not ws.flexible:
                    bad("tag-in-non-flexible-class", "tags only in flexible versions", f"tag {f.tag}")
                    continue
                if not default_resolvable(f):
                    bad("tagged-field-default-not-resolvable", "explicit default or implicit zero value", repr(f.annotation))
                    continue
            # second, independent classification (kio's own) must agree with E1's; kio's introspection helpers
            # are private, so if a refactoring removed them this sub-check is skipped and said so
            if not second_reading:
                acc.outcome(f"{f.kafka_type or 'struct'}{'[]' if f.array else ''} (second reading unavailable)")
                continue
            try:
                fcl = _introspect.classify_field(df)
                kio_view = (fcl.is_array, isinstance(fcl, (_introspect.EntityField, _introspect.EntityTupleField)),
                            _introspect.get_field_tag(df),
                            None if f.nested is not None else _introspect.get_schema_field_type(df))
                opt = _introspect.is_optional(df)
            except Exception as e:  # noqa: BLE001
                bad(f"introspection-raised/{exc_name(e)}", "classify_field works", repr(e)[:200])
                continue
            mine = (f.array, f.nested is not None, f.tag, f.kafka_type)
            my_opt = f.nullable or (f.array and f.item_nullable)
            if kio_view != mine or opt != my_opt:
                bad("two-readings-of-the-description-disagree", f"{mine} optional={my_opt}", f"{kio_view} optional={opt}")
                continue
            acc.outcome(f"{f.kafka_type or 'struct'}{'[]' if f.array else ''}{'?' if my_opt else ''}{'/tagged' if f.tag is not None else ''}")
        acc.add("evaluations")
        try:
            entity_writer(cls)
            entity_reader(cls)
        except Exception as e:  # noqa: BLE001
            acc.report(violation("C13", "derive", f"C13/reader-or-writer-not-derivable/{exc_name(e)}", path, case,
                                 "entity_reader(T) and entity_writer(T) can be built", repr(e)[:300], (api, ver, cls.__name__)))
        if len(acc.samples) < 5 and ws.tagged:
            acc.sample({"class": path, "fields": [[f.name, f.kafka_type or f"@{f.nested.cls.__name__}", f.array, f.nullable, f.tag] for f in ws.fields][:8]})
    run.merge(acc.result())
    c = run.cov
    c["fields"] = nfields
    c["classes"] = len(all_classes())
    c["distinct_nontrivial"] = nfields
    c["rule"] = ("every field of every entity class on disk: kafka type names a known primitive whose table entry "
                 "(Python base type, has wire null) matches the annotation; nullable only with a wire null (or tagged "
                 "with default None); tuple[T, ...] arrays only; defaults inhabit the declared type and are hashable; "
                 "tags unique, non-negative, only in flexible classes, default resolvable; E1's reading and kio's own "
                 "introspection agree on (array, struct, tag, kafka type, optional); reader and writer derivable; the default the "
                 "derived reader fills in for every absent tagged field inhabits the declared type (bool is not an int) and "
                 "equals the described default, classes visited forward and in reverse in fresh processes")
    c["exhaustive"] = True
    if nfields < 5000:
        raise HarnessError(f"only {nfields} fields found")
    return run.finish()


# ---------------------------------------------------------------------------------------
# C14
# ---------------------------------------------------------------------------------------
def camel(s):
    return "".join(p[:1].upper() + p[1:] for p in s.split("_"))


def run_c14(tier):
    from kio.static.constants import EntityType

    run = Run("C14", tier, "exploration")
    acc = Acc(max_samples=5)
    pins = pin_apis()
    mods = modules_by_key()
    fam = {}
    keys = {}
    for (api, ver, typ), (mod, classes) in sorted(mods.items()):
        mpath = mod.__name__
        case = {"module": mpath}
        tops = [c for c in classes if getattr(c.__dict__.get("__type__"), "name", None) != "nested"]
        acc.add("evaluations")
        if len(tops) != 1:
            acc.report(violation("C14", "module", "C14/not-exactly-one-top-level-class", mpath, case, "one", str([c.__name__ for c in tops]), (api, ver, typ)))
            continue
        top = tops[0]
        if getattr(top.__dict__.get("__type__"), "name", None) != typ:
            acc.report(violation("C14", "module", "C14/module-path-type-differs-from-class-type", mpath, case, typ, str(top.__dict__.get("__type__")), (api, ver, typ)))
            continue
        want_names = {camel(api) + {"request": "Request", "response": "Response", "header": "", "data": ""}[typ]}
        if top.__name__.lower() not in {w.lower() for w in want_names}:
            acc.report(violation("C14", "module", "C14/module-path-name-differs-from-class-name", mpath, case, str(want_names), top.__name__, (api, ver, typ)))
            continue
        consts = ("__version__", "__flexible__") + (("__api_key__", "__header_schema__") if typ in ("request", "response") else ())
        ref = {k: top.__dict__.get(k) for k in consts}
        if ref["__version__"] != ver:
            acc.report(violation("C14", "module", "C14/module-path-version-differs-from-class-version", mpath, case, str(ver), str(ref["__version__"]), (api, ver, typ)))
            continue
        everyone = list(classes)
        for c in reachable(top):
            if c not in everyone:
                everyone.append(c)
        ok = True
        for c in everyone:
            acc.add("evaluations")
            cc = dict(case, cls=c.__name__)
            if c.__module__ != mpath:
                acc.report(violation("C14", "class", "C14/class-used-by-module-is-defined-elsewhere", mpath, cc, mpath, c.__module__, (api, ver, typ, c.__name__)))
                ok = False
                continue
            mine = {k: c.__dict__.get(k) for k in consts}
            if mine != ref:
                d = next(k for k in consts if mine[k] != ref[k])
                acc.report(violation("C14", "class", f"C14/class-constant-differs-from-module/{d}", mpath, cc, repr(ref[d]), repr(mine[d]), (api, ver, typ, c.__name__)))
                ok = False
                continue
            if c is not top and c.__dict__.get("__type__") is not EntityType.nested:
                acc.report(violation("C14", "class", "C14/second-non-nested-class", mpath, cc, "nested", str(c.__dict__.get("__type__")), (api, ver, typ, c.__name__)))
                ok = False
        if ok:
            acc.outcome(f"coherent {typ} module")
        fam.setdefault((api, typ), {})[ver] = top
        if typ in ("request", "response"):
            for const in ("__api_key__", "__header_schema__"):
                if const not in top.__dict__:
                    acc.add("evaluations")
                    acc.report(violation("C14", "class", f"C14/payload-class-lacks-constant/{const}", mpath, case, f"{const} on every request / response class", "missing", (api, ver, typ)))
            keys.setdefault(cv(top, "__api_key__"), set()).add(api)
    for (api, typ), vers in sorted(fam.items()):
        acc.add("evaluations")
        acc.add("families")
        case = {"family": f"{api}/{typ}"}
        vs = sorted(vers)
        if vs != list(range(vs[0], vs[-1] + 1)):
            acc.report(violation("C14", "family", "C14/versions-not-contiguous", f"{api}/{typ}", case, "contiguous", str(vs), (api, typ)))
            continue
        flex = [cv(vers[v], '__flexible__') for v in vs]
        if any(a and not b for a, b in zip(flex, flex[1:])):
            acc.report(violation("C14", "family", "C14/flexibility-reverts", f"{api}/{typ}", case, "monotone", str(flex), (api, typ)))
            continue
        if typ in ("request", "response"):
            ks = {cv(vers[v], '__api_key__') for v in vs}
            if len(ks) != 1:
                acc.report(violation("C14", "family", "C14/api-key-not-constant", f"{api}/{typ}", case, "one key", str(ks), (api, typ)))
                continue
            other = fam.get((api, "response" if typ == "request" else "request"), {})
            if sorted(other) != vs:
                acc.report(violation("C14", "family", "C14/request-and-response-versions-differ", f"{api}/{typ}", case, str(vs), str(sorted(other)), (api, typ)))
                continue
        pin = pins.get(api, {}).get("types", {}).get(typ)
        ff = next((v for v in vs if cv(vers[v], '__flexible__')), None)
        got = {"min": vs[0], "max": vs[-1], "first_flexible": ff}
        if pin != got or (typ in ("request", "response") and pins[api]["key"] != cv(vers[vs[0]], '__api_key__')):
            acc.report(violation("C14", "family", "C14/family-differs-from-pinned-api-table", f"{api}/{typ}", case, str(pin), str(got), (api, typ)))
            continue
        acc.outcome("coherent family")
        if len(acc.samples) < 5 and len(vs) > 8:
            acc.sample({"family": f"{api}/{typ}", "versions": [vs[0], vs[-1]], "first_flexible": ff})
    for k, apis in keys.items():
        acc.add("evaluations")
        if len(apis) != 1:
            acc.report(violation("C14", "family", "C14/api-key-shared-between-apis", str(k), {"key": k}, "unique", str(sorted(apis)), (k,)))
    missing = [(a, t) for a, e in pins.items() for t in e["types"] if (a, t) not in fam]
    for a, t in missing:
        acc.report(violation("C14", "family", "C14/pinned-family-missing", f"{a}/{t}", {"family": f"{a}/{t}"}, "present", "absent", (a, t)))
    run.merge(acc.result())
    c = run.cov
    c["modules"] = len(mods)
    c["distinct_nontrivial"] = len(mods) + len(fam) + len(keys)  # distinct modules, families and api keys judged
    c["rule"] = ("every version module on disk (module path <-> top-level class name/type/version; every class defined in or "
                 "reachable from the module is defined there and carries the module's version, flexibility, api key and header "
                 "schema) and every (API, type) family (contiguous versions, monotone flexibility, constant and unique api key, "
                 "request versions = response versions, agreement with the pinned API table)")
    c["exhaustive"] = True
    if len(mods) < 600:
        raise HarnessError("too few modules")
    return run.finish()
