"""C06 (every truncation point) and C10 (short strings, 1- and 2-fault neighbourhoods): fault
enumeration on the real decoder under a deterministic step budget."""

from __future__ import annotations

import io
import json

from .. import bridge, refcodec, streams, values
from ..core import Acc, HarnessError, Run, exc_name, from_json, pmap, short, violation
from ..schema_walk import all_classes, load_class, wire_schema
from .codec import kio_encode

BUDGET_A = 400  # steps allowed for an empty input
BUDGET_B = 60  # steps per input byte (measured maximum on valid decodes is reported)


def budget_for(n):
    return BUDGET_A + BUDGET_B * n


def decode_with(cls, src, nbytes):
    """Run the real reader on src under the step budget.
    -> (kind, value): kind in {'returned', 'raised', 'budget'}."""
    from kio.serial import entity_reader

    reader = entity_reader(cls)
    b = streams.decode_budget()
    b.arm(budget_for(nbytes))
    try:
        out = reader(src)
        return "returned", out
    except streams.BudgetExceeded:
        return "budget", None
    except BaseException as e:  # noqa: BLE001
        if isinstance(e, (KeyboardInterrupt, SystemExit)):
            raise
        return "raised", e
    finally:
        b.disarm()


# ---------------------------------------------------------------------------------------
# C06
# ---------------------------------------------------------------------------------------
def huge_cuts(n):
    """cut positions for an encoding that holds a 2 MiB payload: the last bytes, and around every distance from the end
    that a reader working in 1 KiB .. 2 MiB pieces could treat differently"""
    ds = {1, 2, 3, 1000, 4321, 4322}
    for k in range(10, 22):
        ds |= {2**k - 1, 2**k, 2**k + 1}
    return sorted({n - d for d in ds if 0 <= n - d < n} | {0, 1, n // 2})


def judge_c06(ws, w, acc, order, cuts=None):
    from kio.serial.errors import BufferUnderflow

    cls = ws.cls
    inst = bridge.to_entity(ws, w)
    try:
        enc = kio_encode(cls, inst)
    except Exception:  # noqa: BLE001 - not encodable: outside C06's quantifier (C01 judges it)
        acc.add("not_encodable")
        return
    for cut in (range(len(enc)) if cuts is None else cuts(len(enc))):
        prefix = enc[:cut]
        for kind in ("BytesIO", "ReadOnlySource"):
            src = io.BytesIO(prefix) if kind == "BytesIO" else streams.ReadOnlySource(prefix)
            acc.add("evaluations")
            if cut:
                acc.add("distinct_nontrivial")  # distinct by construction (deduplicated instance, cut, source); the empty prefix is the trivial case
            res, val = decode_with(cls, src, len(prefix))
            case = {"class": ws.path, "wire": w, "cut": cut, "source": kind, "len": len(enc)}
            if res == "raised" and isinstance(val, BufferUnderflow):
                acc.outcome("BufferUnderflow")
                if kind == "ReadOnlySource" and src.negative_reads:
                    acc.add("negative_read_calls")
                continue
            if res == "returned":
                acc.report(violation("C06", "cut", "C06/returned-a-value", ws.path, case,
                                     "BufferUnderflow", f"returned {val!r}"[:600], order + (cut,)))
            elif res == "budget":
                acc.report(violation("C06", "cut", "C06/step-budget-exceeded", ws.path, case,
                                     "BufferUnderflow within the step budget",
                                     f"> {budget_for(len(prefix))} steps", order + (cut,)))
            else:
                acc.report(violation("C06", "cut", f"C06/wrong-error/{exc_name(val)}", ws.path, case,
                                     "BufferUnderflow", repr(val)[:300], order + (cut,)))
            return  # one report per instance is enough
    # calibration data for the step budget: steps of the complete valid decode
    b = streams.decode_budget()
    res, val = decode_with(cls, io.BytesIO(enc), len(enc))
    if res != "returned":
        # a valid encoding must decode within the budget, else the budget is miscalibrated
        if res == "budget":
            raise HarnessError(f"step budget too small for a valid decode of {ws.path}: {len(enc)} bytes")
    acc.cov["max_steps_valid"] = max(acc.cov.get("max_steps_valid", 0), b.n)
    ratio = (b.n * 100) // max(1, len(enc))
    acc.cov["max_steps_per_byte_x100"] = max(acc.cov.get("max_steps_per_byte_x100", 0), ratio)


def _task_c06(arg):
    idx, cfg = arg
    api, ver, typ, mod, cls = all_classes()[idx]
    ws = wire_schema(cls)
    acc = Acc()
    ex = values.Explorer(ws, cfg["k"], "value", cfg["max_len"], cap=cfg["cap"])
    seen = set()
    for cost, w, edits in ex:
        h = hash(values.freeze(w))
        if h in seen:
            continue
        seen.add(h)
        acc.add("instances")
        judge_c06(ws, w, acc, (idx, cost, len(seen)))
        if cost and len(acc.samples) < 1:
            acc.sample({"class": ws.path, "edits": [list(e) for e in edits], "wire": short(w, 200),
                        "cuts": "every prefix length 0..len-1 on BytesIO and on a read-only source"})
    # payloads of 2 MiB + 4321 bytes, one slot at a time, cut at the positions of huge_cuts() only
    for n, w in enumerate(values.huge_instances(ex.tree)):
        acc.add("instances")
        acc.add("huge_payload_instances")
        judge_c06(ws, w, acc, (idx, 1, 10**7 + n), cuts=huge_cuts)
    acc.add("classes")
    if ex.capped:
        acc.caps.append(f"{ws.path}: instance cap {cfg['cap']} hit, completed k={ex.k}")
    r = acc.result()
    r["max"] = {k: acc.cov.pop(k) for k in ("max_steps_valid", "max_steps_per_byte_x100") if k in acc.cov}
    return r


def run_c06(tier):
    run = Run("C06", tier, "fault_enumeration")
    cfg = {"k": 1, "max_len": 130, "cap": 20000} if tier == "quick" else {"k": 2, "max_len": 130, "cap": 6000}
    classes = all_classes()
    order = list(range(len(classes)))
    run.rng.shuffle(order)
    mx = {}
    for res in pmap(_task_c06, [(i, cfg) for i in order], chunksize=2):
        for k, v in res.pop("max", {}).items():
            mx[k] = max(mx.get(k, 0), v)
        run.merge(res)
    c = run.cov
    c.update(mx)
    c["rule"] = (
        f"for every one of the {len(classes)} entity classes, every instance within k<={cfg['k']} "
        f"deviations of the base instance (strings/bytes capped at {cfg['max_len']} bytes so that all "
        "cut positions stay affordable), every strict prefix of its encoding (cut = 0..len-1), plus, per string / bytes / records slot, the base instance with a 2 MiB + 4321 byte payload cut at ~45 positions (the last bytes and 2^k +- 1 bytes before the end, k = 10..21), on "
        "io.BytesIO and on a socket-like read-only source; each (instance, cut, source) is a distinct "
        "fault case, non-trivial when the prefix is not empty; verdict: raises exactly kio.serial.errors.BufferUnderflow within "
        f"{BUDGET_A}+{BUDGET_B}*len monitored steps"
    )
    c["exhaustive"] = not run.caps
    c["bounds"] = cfg
    c["step_budget"] = {"a": BUDGET_A, "b_per_byte": BUDGET_B,
                        "counted": "sys.monitoring PY_START + JUMP in kio.serial._parse/readers, kio.records.readers, kio.static"}
    run.assumptions += ["step budget stands in for 'never blocks or loops'; an in-memory source cannot block"]
    return run.finish()


def replay(prop, path):
    rec = json.load(open(path))
    case = from_json(rec["case"])
    cls = load_class(rec["class"])
    ws = wire_schema(cls)
    acc = Acc()
    if prop == "C06":
        judge_c06(ws, case["wire"], acc, (0, 0, 0), cuts=(huge_cuts if case.get("len", 0) > 65536 else None))
    else:
        from . import malformed

        return malformed.replay_case(ws, rec, case, path)
    res = acc.result()
    if res["violations"]:
        v = res["violations"][0]
        print(f"VIOLATION property={prop} replay={path}")
        print(f"  signature={v['signature']}\n  expected: {v['expected'][:400]}\n  observed: {v['observed'][:400]}")
        return 1
    print(f"replay {path}: no violation on the current tree")
    return 0
