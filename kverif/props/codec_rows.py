"""C01/C02/C03/C05 extra sweep: one synthetic one-field (plus one tagged-field) dataclass per dispatch row
(kafka_type x flexible x nullable x scalar/array x tagged), explored at k=2, so that rows that the
real schema uses rarely are still covered.  The classes follow the documented metadata contract,
as tests/serial does."""

from __future__ import annotations

import dataclasses
import datetime
import json
import uuid
from typing import ClassVar

from .. import values
from ..core import Acc, short
from ..schema_walk import KAFKA_TYPES, wire_schema

IMPLICIT_OK = ("int8", "int16", "int32", "int64", "uint8", "uint16", "uint32", "uint64", "float64",
               "string", "bytes", "timedelta_i32", "timedelta_i64", "datetime_i64")
NULLABLE_KT = ("string", "bytes", "records", "uuid", "datetime_i64")


def py_type(kt):
    from kio.schema.errors import ErrorCode
    from kio.static import primitive as p

    return {
        "int8": p.i8, "int16": p.i16, "int32": p.i32, "int64": p.i64,
        "uint8": p.u8, "uint16": p.u16, "uint32": p.u32, "uint64": p.u64,
        "float64": p.f64, "string": str, "bytes": bytes, "records": p.Records, "uuid": uuid.UUID,
        "bool": bool, "error_code": ErrorCode, "timedelta_i32": p.i32Timedelta,
        "timedelta_i64": p.i64Timedelta, "datetime_i64": p.TZAware,
    }[kt]  # fmt: skip


def zero_value(kt):
    from kio.schema.errors import ErrorCode

    from ..bridge import EPOCH

    if kt in ("timedelta_i32", "timedelta_i64"):
        return datetime.timedelta(0)
    if kt == "datetime_i64":
        return EPOCH
    return {"string": "", "bytes": b"", "bool": False, "float64": 0.0,
            "error_code": ErrorCode.none}.get(kt, 0)


def specs():
    out = []
    for kt in KAFKA_TYPES:
        for flexible in (False, True):
            for nullable in (False, True):
                if nullable and kt not in NULLABLE_KT:
                    continue
                if kt == "uuid" and not nullable:
                    continue  # uuid fields are always `UUID | None`
                for array in (False, True):
                    if array and nullable and kt != "uuid":
                        continue
                    out.append({"kt": kt, "flexible": flexible, "nullable": nullable, "array": array,
                                "tagged": False})
                    if flexible and not array and kt != "records":
                        # tagged, with an explicit default (as the generator emits for bool,
                        # error codes, uuid and nullable fields) ...
                        out.append({"kt": kt, "flexible": True, "nullable": nullable, "array": False,
                                    "tagged": True, "default": True})
                        # ... and relying on the type's implicit zero default where the shipped
                        # schema does so
                        if not nullable and kt in IMPLICIT_OK:
                            out.append({"kt": kt, "flexible": True, "nullable": False, "array": False,
                                        "tagged": True, "default": False})
    # kio's documented convention for tagged ignorable fields without default: `T | None = None` also for types WITHOUT a
    # wire-level null (absent tag <-> None, any value <-> sent).  No Kafka bytes to compare with, but the round trip is
    # defined: these rows are swept by C01 only
    for kt in KAFKA_TYPES:
        if kt not in NULLABLE_KT and kt != "records":
            out.append({"kt": kt, "flexible": True, "nullable": True, "array": False, "tagged": True, "default": True, "convention": True})
    # nullable AND tagged with a default that is not null (upstream: a nullable field whose "default" is a value): the
    # null form on the wire means null, not "default"
    for kt in ("string", "bytes"):
        out.append({"kt": kt, "flexible": True, "nullable": True, "array": False, "tagged": True, "default": True, "nonnull_default": True})
    # a tagged struct whose own members are tagged (tagged value encoded inside a tagged value; no shipped class nests them)
    out.append({"nested_tagged": True, "flexible": True})
    # request-header client_id rule is covered on the real header classes by the main exploration
    return out


_made = {}


def make(spec):
    key = json.dumps(spec, sort_keys=True)
    if key in _made:
        return _made[key]
    from kio.static.constants import EntityType
    from kio.static.primitive import i8, i16

    if spec.get("nested_tagged"):
        i16_, i32_ = py_type("int16"), py_type("int32")
        cv = {"__type__": EntityType.nested, "__version__": i16(0), "__flexible__": True}
        ca = {"__type__": ClassVar, "__version__": ClassVar[i16], "__flexible__": ClassVar[bool]}
        inner = dataclasses.dataclass(frozen=True, slots=True, kw_only=True)(type("RowInner", (), dict(
            cv, __annotations__=dict(ca, aa=i32_, bb=i16_, cc=str), __module__="kverif.synthetic",
            aa=dataclasses.field(metadata={"kafka_type": "int32"}),
            bb=dataclasses.field(metadata={"kafka_type": "int16", "tag": 0}, default=i16_(0)),
            cc=dataclasses.field(metadata={"kafka_type": "string", "tag": 1}, default=""))))
        outer = dataclasses.dataclass(frozen=True, slots=True, kw_only=True)(type("RowOuter", (), dict(
            cv, __annotations__=dict(ca, lead=i8, value=inner, many=tuple[inner, ...]), __module__="kverif.synthetic",
            lead=dataclasses.field(metadata={"kafka_type": "int8"}),
            value=dataclasses.field(metadata={"tag": 0}, default=inner(aa=i32_(0))),
            many=dataclasses.field(metadata={"tag": 1}, default=()))))
        ws = wire_schema(outer)
        ws.path = "synthetic:" + key
        _made[key] = ws
        return ws
    t = py_type(spec["kt"])
    ann = t | None if spec["nullable"] else t
    if spec["array"]:
        ann = tuple[ann, ...]
    md = {"kafka_type": spec["kt"]}
    ns = {"__type__": EntityType.nested, "__version__": i16(0), "__flexible__": spec["flexible"]}
    anns = {"__type__": ClassVar, "__version__": ClassVar[i16], "__flexible__": ClassVar[bool]}
    if spec["tagged"]:
        md["tag"] = 3
        anns["lead"] = i8
        ns["lead"] = dataclasses.field(metadata={"kafka_type": "int8"})
        anns["value"] = ann
        if spec["nullable"] and spec.get("nonnull_default"):
            ns["value"] = dataclasses.field(metadata=md, default=zero_value(spec["kt"]))
        elif spec["nullable"]:
            ns["value"] = dataclasses.field(metadata=md, default=None)
        elif spec.get("default"):
            ns["value"] = dataclasses.field(metadata=md, default=zero_value(spec["kt"]))
        else:
            ns["value"] = dataclasses.field(metadata=md)
    else:
        anns["value"] = ann
        ns["value"] = dataclasses.field(metadata=md)
    ns["__annotations__"] = anns
    ns["__module__"] = "kverif.synthetic"
    name = "Row_" + "_".join(str(v) for v in spec.values())
    cls = dataclasses.dataclass(frozen=True, slots=True, kw_only=True)(type(name, (), ns))
    ws = wire_schema(cls)
    ws.path = "synthetic:" + key
    _made[key] = ws
    return ws


def sweep(run, tier, prop="C02"):
    from .codec import JUDGES

    mode, judge = JUDGES[prop]

    acc = Acc(max_samples=3)
    n = 0
    for spec in specs():
        if spec.get("convention") and prop != "C01":
            continue
        ws = make(spec)
        ex = values.Explorer(ws, 2, mode, 32767, long_arrays=True)
        seen = set()
        for cost, w, edits in ex:
            h = hash(values.freeze(w))
            if h in seen:
                continue
            seen.add(h)
            acc.add("states")
            if cost:
                acc.add("distinct_nontrivial")
            judge(ws, cost, w, edits, acc, (10**6 + n, cost, len(seen)))
        acc.add("transitions", ex.transitions)
        acc.add("dispatch_rows")
        n += 1
    acc.sample({"class": make(specs()[-1]).path, "note": "synthetic dispatch-row class"})
    run.merge(acc.result())
    run.notes["dispatch_rows_swept"] = n


def replay(prop, rec, case):
    from .codec import JUDGES

    spec = json.loads(rec["class"].split(":", 1)[1])
    ws = make(spec)
    acc = Acc()
    JUDGES[prop][1](ws, 0, case["wire"], (), acc, 0)
    res = acc.result()
    if res["violations"]:
        v = res["violations"][0]
        print(f"VIOLATION property={prop} replay=(synthetic)")
        print(f"  signature={v['signature']}\n  expected: {v['expected'][:400]}\n  observed: {v['observed'][:400]}")
        return 1
    print("replay: no violation on the current tree")
    return 0
