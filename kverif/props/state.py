"""C19 - readers and writers are stateless: (1) operation histories (stateless depth-bounded and
abstract-state BFS to a fixpoint), (2) stream failures at every call index on every class,
(3) thread schedules with a preemption bound.  Golden results come from the reference codec."""

from __future__ import annotations

import dataclasses
import gc
import io
import itertools
import json
import types

from .. import bridge, refcodec, sched, streams, values
from ..core import Acc, HarnessError, Run, chunks, exc_name, from_json, pmap, short, violation
from ..schema_walk import all_classes, load_class, wire_schema
from .stream import _longest, _second, pick_variant

CLASS_SET = [
    "kio.schema.fetch.v15.request:FetchRequest",
    "kio.schema.fetch.v15.request:FetchTopic",
    "kio.schema.fetch.v15.response:FetchResponse",
    "kio.schema.metadata.v5.request:MetadataRequest",
    # a nullable struct field: the nested reader/writer is cached under a second key (nullable=True)
    "kio.schema.describe_topic_partitions.v0.request:DescribeTopicPartitionsRequest",
    # the same class NAME in another (legacy) version: cache keys must be the classes, not their names
    "kio.schema.fetch.v4.request:FetchRequest",
]


COLD_START_AVAILABLE = True


def clear_caches():
    """Cold start through the public functools interface of the two memoised factories.  If a refactoring
    replaced functools.cache by something without cache_clear, cold starts degrade to warm ones (said in the
    evidence) instead of crashing the check."""
    global COLD_START_AVAILABLE
    from kio.serial import entity_reader, entity_writer

    for fn in (entity_reader, entity_writer):
        clear = getattr(fn, "cache_clear", None)
        if clear is None:
            COLD_START_AVAILABLE = False
        else:
            clear()


def _long2(alts):
    """strings / bytes: an alternative of at least 127 bytes (its compact length needs two varint bytes) other than
    the one `_longest` picks; everything else: the second alternative"""
    first = _longest(alts)
    cands = [a for a in alts if isinstance(a, (str, bytes)) and a != first and 127 <= len(a.encode() if isinstance(a, str) else a) <= 300]
    blen = lambda a: len(a.encode() if isinstance(a, str) else a)  # noqa: E731
    other = [a for a in cands if not isinstance(first, (str, bytes)) or blen(a) != blen(first)]  # a different length varint
    return other[-1] if other else (cands[-1] if cands else _second(alts))


class Subject:
    """One class of the colliding class set with two values, their golden encodings (from KRef), a
    value that makes the writer die part-way and an input that makes the reader die part-way."""

    def __init__(self, path):
        self.path = path
        self.ws = wire_schema(load_class(path))
        tree = values.build(self.ws, "value", 300)
        # [2]: a second value whose strings / bytes need a multi-byte length varint, different from [1]'s
        self.wires = [pick_variant(tree, _second), pick_variant(tree, _longest), pick_variant(tree, _long2)]
        self.insts = [bridge.to_entity(self.ws, w) for w in self.wires]
        self.golden = [bytes(refcodec.encode(self.ws, w, bridge.wire_default).buf) for w in self.wires]
        self.bad_value = self._bad_value()
        self.bad_input = self.golden[1][: max(1, len(self.golden[1]) * 2 // 3)]
        self.nw = [self._count_writes(i) for i in self.insts]
        self.nr = [self._count_reads(g) for g in self.golden]

    def _bad_value(self):
        """x1 with one field replaced by an ill-typed / out-of-range value such that the writer dies
        part-way; the latest such field is taken (found by trying on the real writer)."""
        from kio.serial import entity_writer

        inst = self.insts[1]
        w = entity_writer(self.ws.cls)
        for f in reversed([f for f in self.ws.fields if f.tag is None]):
            for bad in (2**70, object()):
                cand = dataclasses.replace(inst, **{f.name: bad})
                try:
                    w(io.BytesIO(), cand)
                except Exception:  # noqa: BLE001
                    return cand
        raise HarnessError(f"no bad value for {self.path}")

    def _count_writes(self, inst):
        from kio.serial import entity_writer

        s = streams.WriteOnlySink()
        entity_writer(self.ws.cls)(s, inst)
        return len(s.calls)

    def _count_reads(self, data):
        from kio.serial import entity_reader

        s = streams.ReadOnlySource(data)
        entity_reader(self.ws.cls)(s)
        return len(s.calls)


# subjects used by schedule harnesses only (not letters of the histories): a class whose tagged struct field has no
# explicit default - its implicit default is RESOLVED while the reader / writer is derived
EXTRA_SET = ["kio.schema.fetch_snapshot.v1.response:PartitionSnapshot", "kio.schema.update_raft_voter.v0.response:UpdateRaftVoterResponse"]
_extra = None


def extra_subjects():
    global _extra
    if _extra is None:
        _extra = [Subject(p) for p in EXTRA_SET]
        clear_caches()
    return _extra


_subjects = None


def subjects():
    global _subjects
    if _subjects is None:
        _subjects = [Subject(p) for p in CLASS_SET]
        clear_caches()
    return _subjects


def letters():
    out = []
    for si in range(len(CLASS_SET)):
        out += [("mkW", si), ("mkR", si), ("useW", si, 0), ("useW", si, 1), ("useR", si, 0), ("useR", si, 1)]
        for pos in ("first", "mid", "last"):
            out += [("failW", si, 1, pos), ("failR", si, 1, pos)]
        out += [("badW", si), ("badR", si)]
    out.append(("clear",))
    return out


def _pos(n, pos):
    return {"first": 0, "mid": n // 2, "last": n - 1}[pos]


def apply_op(op):
    """Execute one operation on the real code.  -> None if as expected, else (kind, expected, observed)."""
    from kio.serial import entity_reader, entity_writer
    from kio.serial.errors import BufferUnderflow

    if op[0] == "clear":
        clear_caches()
        return None
    s = subjects()[op[1]]
    cls = s.ws.cls
    try:
        if op[0] == "mkW":
            entity_writer(cls)
        elif op[0] == "mkR":
            entity_reader(cls)
        elif op[0] == "useW":
            b = io.BytesIO()
            entity_writer(cls)(b, s.insts[op[2]])
            if b.getvalue() != s.golden[op[2]]:
                return ("wrong-bytes", s.golden[op[2]].hex()[:300], b.getvalue().hex()[:300])
        elif op[0] == "useR":
            v = entity_reader(cls)(io.BytesIO(s.golden[op[2]]))
            if v != s.insts[op[2]]:
                return ("wrong-value", repr(s.insts[op[2]])[:300], repr(v)[:300])
        elif op[0] == "failW":
            sink = streams.WriteOnlySink(fail_at=_pos(s.nw[op[2]], op[3]))
            try:
                entity_writer(cls)(sink, s.insts[op[2]])
            except streams.InjectedIOError:
                return None
            return ("injected-error-lost", "InjectedIOError propagates", "no exception")
        elif op[0] == "failR":
            src = streams.ReadOnlySource(s.golden[op[2]], fail_at=_pos(s.nr[op[2]], op[3]))
            try:
                entity_reader(cls)(src)
            except streams.InjectedIOError:
                return None
            return ("injected-error-lost", "InjectedIOError propagates", "no exception")
        elif op[0] == "badW":
            try:
                entity_writer(cls)(io.BytesIO(), s.bad_value)
            except Exception:  # noqa: BLE001 - the library's own error for an out-of-range value
                return None
            return ("bad-value-accepted", "an out-of-range field raises", "no exception")
        elif op[0] == "badR":
            try:
                entity_reader(cls)(io.BytesIO(s.bad_input))
            except BufferUnderflow:
                return None
            return ("truncated-input-accepted", "BufferUnderflow", "no exception")
    except Exception as e:  # noqa: BLE001
        return (f"raised/{exc_name(e)}", "operation succeeds as on a fresh process", repr(e)[:300])
    return None


def run_history(hist, acc, order):
    """Execute a history from a clean start; report the first operation whose result deviates."""
    clear_caches()
    L = letters()
    for n, li in enumerate(hist):
        op = L[li]
        acc.add("op_executions")
        bad = apply_op(op)
        if bad is not None:
            case = {"history": [list(L[i]) for i in hist], "failing_step": n}
            acc.report(violation("C19", "history", f"C19/history/{op[0]}/{bad[0]}", CLASS_SET[op[1]] if len(op) > 1 else "-",
                                 case, bad[1], bad[2], order))
            return False
    return True


def _task_hist(arg):
    acc = Acc()
    for n, hist in arg:
        acc.add("evaluations")
        acc.add("histories")
        run_history(hist, acc, (len(hist), n))
        if len(hist) == 3 and len(acc.samples) < 1:
            L = letters()
            acc.sample({"history": [list(L[i]) for i in hist]})
    return acc.result()


# ---------------------------------------------------------------------------------------
# abstract state fingerprint (used ONLY to merge states, never as an oracle)
# ---------------------------------------------------------------------------------------
def _fp(obj, depth, seen):
    if depth > 6:
        return "..."
    if obj is None or isinstance(obj, (bool, int, float, str, bytes)):
        return repr(obj)[:80]
    if isinstance(obj, type):
        return f"<class {obj.__module__}.{obj.__qualname__}>"
    if id(obj) in seen:
        return "<cycle>"
    seen = seen | {id(obj)}
    if isinstance(obj, dataclasses.Field):
        return f"<field {obj.name}>"
    if isinstance(obj, types.FunctionType):
        cells = []
        for c in obj.__closure__ or ():
            try:
                cells.append(_fp(c.cell_contents, depth + 1, seen))
            except ValueError:
                cells.append("<empty>")
        extra = _fp(dict(obj.__dict__), depth + 1, seen) if obj.__dict__ else ""
        return f"<fn {obj.__qualname__} [{','.join(cells)}] {extra}>"
    if isinstance(obj, (bytearray, memoryview)):
        return f"<{type(obj).__name__} {bytes(obj).hex()[:64]}>"
    if isinstance(obj, io.BytesIO):
        return f"<BytesIO {'closed' if obj.closed else obj.getvalue().hex()[:64]}>"
    if isinstance(obj, dict) or isinstance(obj, types.MappingProxyType):
        return "{" + ",".join(sorted(f"{_fp(k, depth + 1, seen)}:{_fp(v, depth + 1, seen)}" for k, v in obj.items())) + "}"
    if isinstance(obj, (list, tuple)):
        return "[" + ",".join(_fp(x, depth + 1, seen) for x in obj) + "]"
    if isinstance(obj, (set, frozenset)):
        return "{" + ",".join(sorted(_fp(x, depth + 1, seen) for x in obj)) + "}"
    if dataclasses.is_dataclass(obj):
        return f"<{type(obj).__qualname__} {repr(obj)[:120]}>"
    return f"<{type(obj).__module__}.{type(obj).__qualname__}>"


def fingerprint():
    from kio.serial import entity_reader, entity_writer

    parts = []
    for name, fn in (("W", entity_writer), ("R", entity_reader)):
        for ref in gc.get_referents(fn):
            if isinstance(ref, dict) and "__wrapped__" not in ref and "__module__" not in ref:
                parts.append(name + _fp(ref, 0, frozenset()))
    for mod in streams.kio_modules(("kio.serial", "kio.records")):
        for k, v in sorted(vars(mod).items()):
            if k.startswith("__"):
                continue
            if isinstance(v, (dict, list, set, bytearray, io.BytesIO, memoryview)):
                parts.append(f"{mod.__name__}.{k}={_fp(v, 0, frozenset())}")
            elif isinstance(v, types.FunctionType) and v.__dict__ and v.__module__ == mod.__name__:
                parts.append(f"{mod.__name__}.{k}.__dict__={_fp(dict(v.__dict__), 0, frozenset())}")
    for s in subjects():
        extra = sorted(k for k in vars(s.ws.cls) if not (k.startswith("__") and k.endswith("__")))
        parts.append(f"{s.path}:{extra}")
    return hash(tuple(parts))


def abstract_bfs(acc, limit_states=20000):
    """BFS where a state is the history reaching it (rebuilt from a clean start), merged by
    fingerprint.  Every transition executes the real operation and is judged."""
    # over the operations of the first four subjects (the fixpoint of the full six-class alphabet has several
    # thousand cache-key subsets; the two extra classes are covered by the stateless histories and schedules)
    allL = letters()
    L = [op for op in allL if op[0] == "clear" or op[1] < 4]
    clear_caches()
    seen = {fingerprint(): ()}
    frontier = [()]
    transitions = 0
    depth = 0
    while frontier:
        nxt = []
        for hist in frontier:
            for li in range(len(L)):
                # rebuild
                clear_caches()
                ok = True
                for i in hist:
                    if apply_op(L[i]) is not None:
                        ok = False
                        break
                if not ok:
                    continue
                transitions += 1
                acc.add("evaluations")
                bad = apply_op(L[li])
                if bad is not None:
                    op = L[li]
                    case = {"history": [list(L[i]) for i in hist + (li,)], "failing_step": len(hist)}
                    acc.report(violation("C19", "history", f"C19/history/{op[0]}/{bad[0]}",
                                         CLASS_SET[op[1]] if len(op) > 1 else "-", case, bad[1], bad[2],
                                         (len(hist) + 1, transitions)))
                    continue
                f = fingerprint()
                if f not in seen:
                    seen[f] = hist + (li,)
                    nxt.append(hist + (li,))
                    if len(seen) >= limit_states:
                        acc.caps.append(f"abstract-state BFS stopped at {limit_states} states")
                        return len(seen), transitions, depth, False
        frontier = nxt
        depth += 1
    clear_caches()
    return len(seen), transitions, depth, True


# ---------------------------------------------------------------------------------------
# part 2: stream failure at every call index, every class
# ---------------------------------------------------------------------------------------
def bad_tagged_values(ws, inst):
    """[(instance, where)]: inst with the LAST integer member of a tagged struct (or of the first item of a tagged struct
    array) replaced by 2**70, so that encoding dies after part of the tagged value has been written."""
    out = []
    for f in ws.fields:
        if f.tag is None or f.nested is None:
            continue
        ints = [g for g in f.nested.fields if g.kafka_type in ("int8", "int16", "int32", "int64") and not g.array and g.tag is None]
        if len(f.nested.fields) < 2 or not ints:
            continue
        cur = getattr(inst, f.name)
        try:
            if f.array:
                if not cur:
                    continue
                bad = (dataclasses.replace(cur[0], **{ints[-1].name: 2**70}),) + tuple(cur[1:])
            else:
                if cur is None:
                    continue
                bad = dataclasses.replace(cur, **{ints[-1].name: 2**70})
            out.append((dataclasses.replace(inst, **{f.name: bad}), f"{f.name}.{ints[-1].name}"))
        except Exception:  # noqa: BLE001
            continue
    return out


def _task_faults(arg):
    from kio.serial import entity_reader, entity_writer

    acc = Acc()
    for idx in arg:
        api, ver, typ, mod, cls = all_classes()[idx]
        ws = wire_schema(cls)
        tree = values.build(ws, "value", 300)
        wires = [values.base_value(tree), pick_variant(tree, _second), pick_variant(tree, _longest)]
        insts = [bridge.to_entity(ws, w) for w in wires]
        gold = [bytes(refcodec.encode(ws, w, bridge.wire_default).buf) for w in wires]
        w_, r_ = entity_writer(cls), entity_reader(cls)
        for vi in (1, 2):
            s = streams.WriteOnlySink()
            w_(s, insts[vi])
            nw = len(s.calls)
            src = streams.ReadOnlySource(gold[vi])
            r_(src)
            nr = len(src.calls)
            for j in range(nw):
                acc.add("evaluations")
                acc.add("fault_positions")
                case = {"class": ws.path, "wire": wires[vi], "fail_write_call": j, "of": nw}
                sink = streams.WriteOnlySink(fail_at=j)
                try:
                    w_(sink, insts[vi])
                    acc.report(violation("C19", "faults", "C19/faults/write-error-swallowed", ws.path, case,
                                         "the stream's error propagates", "no exception", (idx, vi, j)))
                    continue
                except streams.InjectedIOError:
                    pass
                except Exception as e:  # noqa: BLE001
                    acc.report(violation("C19", "faults", f"C19/faults/write-error-replaced/{exc_name(e)}", ws.path,
                                         case, "InjectedIOError", repr(e)[:300], (idx, vi, j)))
                    continue
                # the same cached writer, used cleanly afterwards with another and the same value
                for vj in (0, vi):
                    b = io.BytesIO()
                    try:
                        w_(b, insts[vj])
                        got = b.getvalue()
                    except Exception as e:  # noqa: BLE001
                        got = repr(e).encode()
                    if got != gold[vj]:
                        acc.report(violation("C19", "faults", "C19/faults/writer-affected-by-earlier-failure", ws.path,
                                             dict(case, then_value=vj), gold[vj].hex()[:300], got.hex()[:300], (idx, vi, j)))
                        break
                else:
                    acc.outcome("writer unaffected after injected failure")
            # a value that makes the writer die INSIDE a tagged struct / array (a member out of range): the part of the
            # tagged value written so far must not leak into later calls
            for bad_inst, where in bad_tagged_values(ws, insts[vi]):
                acc.add("evaluations")
                acc.add("fault_positions")
                case = {"class": ws.path, "wire": wires[vi], "bad_tagged_member": where}
                try:
                    w_(io.BytesIO(), bad_inst)
                    continue  # not rejected (e.g. the member is not range-checked): nothing to learn
                except Exception:  # noqa: BLE001
                    pass
                for vj in (0, vi):
                    b = io.BytesIO()
                    try:
                        w_(b, insts[vj])
                        got = b.getvalue()
                    except Exception as e:  # noqa: BLE001
                        got = repr(e).encode()
                    if got != gold[vj]:
                        acc.report(violation("C19", "faults", "C19/faults/writer-affected-by-earlier-failure-inside-a-tagged-value", ws.path,
                                             dict(case, then_value=vj), gold[vj].hex()[:300], got.hex()[:300], (idx, vi, 9999)))
                        break
                else:
                    acc.outcome("writer unaffected after a failure inside a tagged value")
            for j in range(nr):
                acc.add("evaluations")
                acc.add("fault_positions")
                case = {"class": ws.path, "wire": wires[vi], "fail_read_call": j, "of": nr}
                try:
                    r_(streams.ReadOnlySource(gold[vi], fail_at=j))
                    acc.report(violation("C19", "faults", "C19/faults/read-error-swallowed", ws.path, case,
                                         "the stream's error propagates", "no exception", (idx, vi, j)))
                    continue
                except streams.InjectedIOError:
                    pass
                except Exception as e:  # noqa: BLE001
                    acc.report(violation("C19", "faults", f"C19/faults/read-error-replaced/{exc_name(e)}", ws.path,
                                         case, "InjectedIOError", repr(e)[:300], (idx, vi, j)))
                    continue
                for vj in (0, vi):
                    try:
                        got = r_(io.BytesIO(gold[vj]))
                    except Exception as e:  # noqa: BLE001
                        got = e
                    if got != insts[vj]:
                        acc.report(violation("C19", "faults", "C19/faults/reader-affected-by-earlier-failure", ws.path,
                                             dict(case, then_value=vj), repr(insts[vj])[:300], repr(got)[:300], (idx, vi, j)))
                        break
                else:
                    acc.outcome("reader unaffected after injected failure")
        acc.add("classes")
    return acc.result()


# ---------------------------------------------------------------------------------------
# part 3: thread schedules
# ---------------------------------------------------------------------------------------
def traced_files():
    """Source files of kio.serial and kio.records (all of them, found by package)."""
    return frozenset(m.__file__ for m in streams.kio_modules(("kio.serial", "kio.records")) if getattr(m, "__file__", None))


OPCODE_FUNCS = ("write_entity", "read_entity", "write_tagged_field", "_write_varint", "read_unsigned_varint")


def harnesses():
    """name -> (setup, make_bodies, expected results).  Bodies return bytes (writers) or the
    decoded instance (readers)."""
    from kio.serial import entity_reader, entity_writer

    S = subjects()
    A, B, C, D, E, F = S
    G, K = extra_subjects()

    def w_body(s, i, cold=True):
        def body():
            b = io.BytesIO()
            entity_writer(s.ws.cls)(b, s.insts[i])
            return b.getvalue()

        return body

    def r_body(s, i):
        def body():
            return entity_reader(s.ws.cls)(io.BytesIO(s.golden[i]))

        return body

    def warm():
        clear_caches()
        for s in S:
            entity_writer(s.ws.cls)
            entity_reader(s.ws.cls)

    H = {
        "warm-writers-same-class": (warm, lambda: [w_body(A, 0), w_body(A, 1)], [A.golden[0], A.golden[1]]),
        "warm-writer-vs-reader": (warm, lambda: [w_body(A, 1), r_body(A, 0)], [A.golden[1], A.insts[0]]),
        "warm-readers-same-class": (warm, lambda: [r_body(C, 0), r_body(C, 1)], [C.insts[0], C.insts[1]]),
        "warm-writers-different-class": (warm, lambda: [w_body(D, 1), w_body(C, 1)], [D.golden[1], C.golden[1]]),
        # both threads inside the multi-byte varint path at once (two different long values of one class / of two classes)
        "warm-writers-two-long-values": (warm, lambda: [w_body(A, 1), w_body(A, 2)], [A.golden[1], A.golden[2]]),
        "warm-writers-long-values-different-class": (warm, lambda: [w_body(C, 2), w_body(A, 1)], [C.golden[2], A.golden[1]]),
        # cold derivation of a class whose tagged struct default has to be resolved, from two threads at once; and next
        # to another class that shares nothing with it
        "cold-implicit-struct-default": (clear_caches, lambda: [w_body(G, 1), r_body(G, 0)], [G.golden[1], G.insts[0]]),
        "cold-implicit-struct-default-two-classes": (clear_caches, lambda: [r_body(G, 1), w_body(K, 1)], [G.insts[1], K.golden[1]]),
        "cold-writers-same-class": (clear_caches, lambda: [w_body(D, 0), w_body(D, 1)], [D.golden[0], D.golden[1]]),
        "cold-readers-same-class": (clear_caches, lambda: [r_body(D, 0), r_body(D, 1)], [D.insts[0], D.insts[1]]),
        "cold-nested-vs-parent": (clear_caches, lambda: [w_body(B, 1), w_body(A, 0)], [B.golden[1], A.golden[0]]),
        "cold-writer-vs-reader": (clear_caches, lambda: [w_body(D, 1), r_body(D, 1)], [D.golden[1], D.insts[1]]),
        "cold-same-name-other-version": (clear_caches, lambda: [w_body(F, 1), w_body(A, 0)], [F.golden[1], A.golden[0]]),
        "cold-nullable-struct": (clear_caches, lambda: [r_body(E, 1), w_body(E, 0)], [E.insts[1], E.golden[0]]),
        # three threads (thorough only): two writers of one class and a reader of another, warm and cold
        "warm-3-threads": (warm, lambda: [w_body(A, 0), w_body(A, 1), r_body(C, 1)], [A.golden[0], A.golden[1], C.insts[1]]),
        "cold-3-threads": (clear_caches, lambda: [w_body(D, 0), r_body(D, 1), w_body(D, 1)], [D.golden[0], D.insts[1], D.golden[1]]),
    }
    return H


def observe(ex):
    out = []
    for st, v in ex.results:
        out.append((st, v if st == "ok" else repr(v)))
    return out


def run_schedules(name, bound, opcode, acc, max_schedules=None, part=None):
    setup, make_bodies, expected = harnesses()[name]
    files = traced_files()
    opf = OPCODE_FUNCS if opcode else ()

    def check(ex, schedule):
        acc.add("evaluations")
        acc.add("schedules")
        for tid, (st, v) in enumerate(ex.results):
            if st != "ok" or v != expected[tid]:
                # replay the same schedule twice from the harness's clean start.  The failure observed above happened on
                # the real code under a recorded schedule, so it is reported either way; when the replays do not repeat
                # it, the library keeps state that the clean start (cache_clear) does not reset - what C19 excludes -
                # and the signature says so
                case = {"harness": name, "schedule": schedule, "thread": tid, "opcode_points": bool(opcode)}
                what = "thread-raised" if st != "ok" else ("wrong-bytes" if isinstance(expected[tid], bytes) else "wrong-value")
                try:
                    again = sched.replay_twice(make_bodies, files, schedule, observe, opf, setup)
                    st2, v2 = again[tid]
                    if st2 == "ok" and v2 == expected[tid]:
                        what += "/not-repeated-on-replay-state-survives-a-clean-start"
                except HarnessError as e:
                    if "different observations" not in str(e):
                        raise
                    what += "/replays-differ-state-survives-a-clean-start"
                acc.report(violation("C19", "schedules", f"C19/schedules/{what}", name, case,
                                     expected[tid].hex()[:300] if isinstance(expected[tid], bytes) else repr(expected[tid])[:300],
                                     (v.hex()[:300] if isinstance(v, bytes) else repr(v)[:300]),
                                     (schedule["preemptions"], len(str(schedule)))))
                return
        acc.outcome(f"{name}: all threads golden")

    st = sched.explore(make_bodies, files, bound, check, opf, setup, max_schedules, part)
    if st["capped"]:
        acc.caps.append(f"{name}: schedule cap {max_schedules} hit in part {part}")
    return st


def schedule_parts(name, opcode, nchunks):
    """Pilot run (zero preemptions per start thread) -> list of parts (start, lo, hi) covering every first
    switch point exactly once."""
    setup, make_bodies, expected = harnesses()[name]
    parts = []
    for start in range(len(make_bodies())):
        setup()
        ex = sched.Scheduler(make_bodies(), traced_files(), OPCODE_FUNCS if opcode else (), start, ()).run()
        n = ex.npoints
        step = max(1, -(-n // nchunks))
        for lo in range(0, n, step):
            parts.append((start, lo, min(n, lo + step)))
    return parts


def _task_sched(arg):
    name, bound, opcode, cap, part = arg
    acc = Acc()
    st = run_schedules(name, bound, opcode, acc, cap, part)
    if part is None or part[1] == 0:
        acc.sample({"harness": name, "preemption_bound": bound, "opcode_points": bool(opcode), "part": part,
                    "schedules_in_this_part": st["schedules"], "points_per_thread": sorted(st["point_counts"])[:3]})
    r = acc.result()
    r["sched"] = (name + ("/opcode" if opcode else ""), {"schedules": st["schedules"], "by_preemptions": st["by_preemptions"],
                                                          "max_points": st["max_points"], "bound": bound,
                                                          "point_counts": sorted(st["point_counts"])})
    return r


# ---------------------------------------------------------------------------------------
# equal twins: values that compare (and hash) equal but have different encodings
# ---------------------------------------------------------------------------------------
TWIN_SET = [
    # 0.0 == -0.0: one sign bit apart on the wire
    "kio.schema.alter_client_quotas.v1.request:AlterClientQuotasRequest",
    "kio.schema.alter_client_quotas.v0.request:AlterClientQuotasRequest",
    # the two instants of a repeated DST hour presented in their zone: same wall clock, same tzinfo, equal and
    # hash-equal by PEP 495, one hour apart on the wire
    "kio.schema.create_delegation_token.v3.response:CreateDelegationTokenResponse",
    "kio.schema.create_delegation_token.v0.response:CreateDelegationTokenResponse",
]


def _twin_pick(which):
    def pick(alts):
        if all(isinstance(a, float) for a in alts):
            return 0.0 if which == 0 else -0.0
        if bridge.FOLD_TWINS[0] in alts:
            return bridge.FOLD_TWINS[which]
        return _second(alts)

    return pick


def _task_twins(path):
    """Every sequence up to length 3 over {write A, write B, read A, read B} on one class, A == B as Python values
    with different encodings: whatever was encoded or decoded before, each call gives the result of its own value."""
    from kio.serial import entity_reader, entity_writer

    acc = Acc(max_samples=1)
    ws = wire_schema(load_class(path))
    tree = values.build(ws, "value", 300)
    wires = [pick_variant(tree, _twin_pick(0)), pick_variant(tree, _twin_pick(1))]
    golden = [bytes(refcodec.encode(ws, w, bridge.wire_default).buf) for w in wires]
    old = bridge.PRESENT_FOLD
    bridge.PRESENT_FOLD = True
    try:
        insts = [bridge.to_entity(ws, w) for w in wires]
    finally:
        bridge.PRESENT_FOLD = old
    if golden[0] == golden[1]:
        raise HarnessError(f"twins of {path} have one encoding")
    equal = insts[0] == insts[1] and hash(insts[0]) == hash(insts[1])
    acc.add("twin_subjects_equal_and_hash_equal", 1 if equal else 0)
    ops = [("w", 0), ("w", 1), ("r", 0), ("r", 1)]
    n = 0
    for d in (1, 2, 3):
        for seq in itertools.product(range(4), repeat=d):
            n += 1
            clear_caches()
            acc.add("evaluations")
            acc.add("twin_histories")
            for step, oi in enumerate(seq):
                kind, which = ops[oi]
                case = {"class": path, "twin_history": [list(ops[i]) for i in seq], "failing_step": step}
                try:
                    if kind == "w":
                        b = io.BytesIO()
                        entity_writer(ws.cls)(b, insts[which])
                        bad = None if b.getvalue() == golden[which] else ("wrong-bytes", golden[which].hex()[:300], b.getvalue().hex()[:300])
                    else:
                        v = entity_reader(ws.cls)(io.BytesIO(golden[which]))
                        got = bridge.from_entity(ws, v)
                        bad = None if bridge.same_wire(got, wires[which]) else ("wrong-value", short(wires[which], 300), short(got, 300))
                except Exception as e:  # noqa: BLE001
                    bad = (f"raised/{exc_name(e)}", "as on a fresh process", repr(e)[:300])
                if bad is not None:
                    acc.report(violation("C19", "twins", f"C19/twins/{'write' if kind == 'w' else 'read'}-of-an-equal-but-different-value/{bad[0]}",
                                         path, case, bad[1], bad[2], (d, n)))
                    break
            else:
                acc.outcome("equal twins keep their own encodings")
    acc.sample({"class": path, "twin_encodings_differ_at": next(i for i, (x, y) in enumerate(zip(*golden)) if x != y), "values_equal": equal})
    return acc.result()


def _task_huge(si):
    """A value with a payload of 2 MiB + 4321 bytes in between: [small, huge, small] x {write, read} on one subject, for
    every string / bytes / records slot of the class in turn; the small value's results must be those of a fresh process
    (pooled or reused buffers that a big message leaves grown, truncated or positioned elsewhere)."""
    from kio.serial import entity_reader, entity_writer

    acc = Acc(max_samples=1)
    s = subjects()[si]
    ws = s.ws
    tree = values.build(ws, "value", 300)
    n = 0
    for hw in values.huge_instances(tree):
        n += 1
        hinst = bridge.to_entity(ws, hw)
        hgold = bytes(refcodec.encode(ws, hw, bridge.wire_default).buf)
        clear_caches()
        steps = [("w", s.insts[0], s.golden[0]), ("w", hinst, hgold), ("w", s.insts[0], s.golden[0]), ("w", s.insts[2], s.golden[2]),
                 ("r", s.insts[0], s.golden[0]), ("r", hinst, hgold), ("r", s.insts[0], s.golden[0]), ("w", s.insts[1], s.golden[1])]
        acc.add("evaluations")
        acc.add("huge_histories")
        for step, (kind, inst, gold) in enumerate(steps):
            try:
                if kind == "w":
                    b = io.BytesIO()
                    entity_writer(ws.cls)(b, inst)
                    ok = b.getvalue() == gold
                    obs = f"{len(b.getvalue())} bytes, first difference at {next((i for i, (x, y) in enumerate(zip(b.getvalue(), gold)) if x != y), min(len(gold), len(b.getvalue())))}"
                else:
                    v = entity_reader(ws.cls)(io.BytesIO(gold))
                    ok = v == inst
                    obs = repr(v)[:200]
            except Exception as e:  # noqa: BLE001
                ok, obs = False, repr(e)[:300]
            if not ok:
                acc.report(violation("C19", "huge", f"C19/huge/{'write' if kind == 'w' else 'read'}-differs-around-a-huge-message", s.path,
                                     {"class": s.path, "huge_history": n, "failing_step": step, "steps": "w small, w HUGE, w small, w long, r small, r HUGE, r small, w long"},
                                     f"{len(gold)} bytes as on a fresh process" if kind == "w" else repr(inst)[:200], obs, (n, step)))
                break
        else:
            acc.outcome("results unaffected by a huge message in between")
    return acc.result()


def _task_same_name(_):
    """Two DISTINCT entity classes with the same module and qualified name but different layouts (class factories,
    reloaded modules): readers and writers are per class, whichever is derived or used first."""
    import dataclasses as dc
    from typing import ClassVar

    from kio.serial import entity_reader, entity_writer
    from kio.static.constants import EntityType
    from kio.static.primitive import i16, i32, i64

    acc = Acc(max_samples=1)

    def make(t, kt):
        ns = {"__type__": EntityType.nested, "__version__": i16(0), "__flexible__": False, "__module__": "kverif.synthetic",
              "__annotations__": {"__type__": ClassVar, "__version__": ClassVar[i16], "__flexible__": ClassVar[bool], "value": t},
              "value": dc.field(metadata={"kafka_type": kt})}
        return dc.dataclass(frozen=True, slots=True, kw_only=True)(type("SameName", (), ns))

    n = 0
    for order in itertools.permutations(range(4)):
        n += 1
        clear_caches()
        narrow, wide = make(i32, "int32"), make(i64, "int64")  # fresh classes each time: nothing cached under their ids
        steps = [("w", narrow, narrow(value=i32(1)), bytes.fromhex("00000001")), ("w", wide, wide(value=i64(1)), bytes.fromhex("0000000000000001")),
                 ("r", narrow, narrow(value=i32(258)), bytes.fromhex("00000102")), ("r", wide, wide(value=i64(2**40 + 5)), bytes.fromhex("0000010000000005"))]
        acc.add("evaluations")
        acc.add("same_name_histories")
        for step, i in enumerate(order):
            kind, cls, inst, data = steps[i]
            try:
                if kind == "w":
                    b = io.BytesIO()
                    entity_writer(cls)(b, inst)
                    ok, obs = b.getvalue() == data, b.getvalue().hex()
                else:
                    src = io.BytesIO(data + b"\xee")
                    v = entity_reader(cls)(src)
                    ok, obs = (v == inst and type(v) is cls and src.tell() == len(data)), f"{v!r} at {src.tell()}"
            except Exception as e:  # noqa: BLE001
                ok, obs = False, repr(e)[:200]
            if not ok:
                acc.report(violation("C19", "same-name", "C19/same-name/result-depends-on-another-class-of-the-same-name", "kverif.synthetic:SameName",
                                     {"same_name_history": [steps[j][0] + ("32" if steps[j][1] is narrow else "64") for j in order], "failing_step": step},
                                     data.hex() if kind == "w" else repr(inst), obs, (n, step)))
                break
        else:
            acc.outcome("classes of the same name keep their own readers and writers")
    return acc.result()


def run_c19(tier):
    run = Run("C19", tier, "model_checking")
    subjects()
    # part 1a: stateless histories
    depth = 3 if tier == "quick" else 4
    nl = len(letters())
    if tier == "quick":
        # depth 3 over the full alphabet is 57^3 = 185k cold rebuilds; quick explores depth 2 fully and
        # depth 3 for histories that end in a use* operation (the only ones with an observable result)
        L = letters()
        use = [i for i, op in enumerate(L) if op[0] in ("useW", "useR")]
        hists = [()] + [(a,) for a in range(nl)] + list(itertools.product(range(nl), repeat=2))
        hists += [(a, b, c) for a in range(nl) for b in range(nl) for c in use]
    else:
        # every history up to depth 3 over the full alphabet, every depth-4 history ending in a use operation
        # over the sub-alphabet of the colliding pair (FetchRequest v15 and its nested FetchTopic) + clear
        L = letters()
        use = [i for i, op in enumerate(L) if op[0] in ("useW", "useR")]
        hists = [()]
        for d in range(1, 4):
            hists += list(itertools.product(range(nl), repeat=d))
        pair = [i for i, op in enumerate(L) if op[0] == "clear" or op[1] in (0, 1)]
        pair_use = [i for i in use if L[i][1] in (0, 1)]
        hists += [h + (c,) for h in itertools.product(pair, repeat=3) for c in pair_use]
    items = list(enumerate(hists))
    run.rng.shuffle(items)
    for res in pmap(_task_hist, chunks(items, max(1, len(items) // 256))):
        run.merge(res)
    # part 1c: equal twins
    for res in pmap(_task_twins, TWIN_SET):
        run.merge(res)
    # part 1d: a huge message in between
    for res in pmap(_task_huge, list(range(len(CLASS_SET)))):
        run.merge(res)
    # part 1e: two classes of one name
    for res in pmap(_task_same_name, [0]):
        run.merge(res)
    # part 1b: abstract-state BFS (in this process)
    acc = Acc()
    nstates, ntrans, bfs_depth, fix = abstract_bfs(acc, 2000 if tier == "quick" else 20000)
    run.merge(acc.result())
    # part 2: faults on all classes
    order = list(range(len(all_classes())))
    run.rng.shuffle(order)
    for res in pmap(_task_faults, chunks(order, 24)):
        run.merge(res)
    # part 3: schedules, each harness split by (start thread, range of the first switch point)
    tasks = []
    for name in harnesses():
        if "3-threads" in name:
            if tier == "thorough":
                tasks += [(name, 1, False, 200000, part) for part in schedule_parts(name, False, 6)]
            continue
        if tier == "quick":
            tasks += [(name, 1, False, None, part) for part in schedule_parts(name, False, 2)]
        else:
            # bound 2 where the harness has few enough points for the complete bound-2 space (about 2*n1*n2
            # schedules); harnesses with more than 850 points stay at bound 1
            # (n points -> about n^2 / 2 schedules at bound 2; 850 points = 360 k schedules is the line drawn)
            parts24 = schedule_parts(name, False, 24)
            big = max(hi for _, _, hi in parts24) > 850
            tasks += [(name, 1 if big else 2, False, 400000, part) for part in (schedule_parts(name, False, 4) if big else parts24)]
            tasks += [(name, 1, True, 200000, part) for part in schedule_parts(name, True, 4)]
    run.rng.shuffle(tasks)
    sched_info = {}
    for res in pmap(_task_sched, tasks, mem_gb=None):
        key, info = res.pop("sched")
        cur = sched_info.setdefault(key, {"schedules": 0, "by_preemptions": {}, "max_points": 0, "bound": info["bound"], "point_counts": set()})
        cur["schedules"] += info["schedules"]
        cur["max_points"] = max(cur["max_points"], info["max_points"])
        for k, v in info["by_preemptions"].items():
            cur["by_preemptions"][k] = cur["by_preemptions"].get(k, 0) + v
        cur["point_counts"] |= {tuple(x) for x in info["point_counts"]}
        run.merge(res)
    # closed-form self check per 2-thread harness whose point counts do not depend on the schedule
    for key, cur in sched_info.items():
        pcs = cur.pop("point_counts")
        cur["points_per_thread"] = sorted(pcs)[:3]
        if len(pcs) == 1 and len(next(iter(pcs))) == 2 and not any(key.split("/")[0] in c for c in run.caps):
            n1, n2 = next(iter(pcs))
            got0, got1 = cur["by_preemptions"].get(0, 0), cur["by_preemptions"].get(1, 0)
            if got0 != 2 or (cur["bound"] >= 1 and got1 != n1 + n2):
                raise HarnessError(f"{key}: explored {got0}/{got1} schedules with 0/1 preemptions, closed form 2/{n1 + n2}")
    c = run.cov
    c["states"] = nstates
    c["transitions"] = ntrans
    c["traces_validated_against_impl"] = c.get("histories", 0) + c.get("schedules", 0)
    c["distinct_nontrivial"] = c.get("histories", 0) - 1 + c.get("fault_positions", 0) + c.get("schedules", 0)
    c["abstract_bfs"] = {"states": nstates, "transitions": ntrans, "depth": bfs_depth, "fixpoint_reached": fix}
    c["schedule_exploration"] = sched_info
    c["rule"] = (
        f"(1) histories over {nl} operations on a colliding class set (FetchRequest v15, its nested FetchTopic "
        "requested directly, FetchResponse v15, MetadataRequest v5, DescribeTopicPartitionsRequest v0 with a nullable struct, FetchRequest v4 = same name): mkR/mkW/useW/useR (2 values)/failW/failR at "
        "first-middle-last call/badW/badR/clear; stateless: every history up to depth "
        f"{2 if tier == 'quick' else 3} plus every depth-{depth} history ending in a use operation"
        + ("" if tier == "quick" else " (depth 4 over the sub-alphabet of the colliding pair)") + ", each rebuilt "
        "from cleared caches; abstract-state BFS (state = cache keys + fingerprint of reachable mutable objects, "
        "used only to merge) to a fixpoint; (2) for every class and 2 values: the stream raising at EVERY write "
        "call index and EVERY read call index, then clean calls on the same cached object; (3) 2-thread "
        f"schedules at source-line granularity, preemption bound {1 if tier == 'quick' else '2 (1 for the harnesses with more than 850 scheduling points, see schedule_exploration)'}"
        + ("" if tier == "quick" else ", plus opcode granularity in the scratch-buffer frames with bound 1")
        + f", {len(harnesses()) - 2} harnesses (warm/cold, same/different/nested classes; thorough adds two 3-thread harnesses at bound 1, where "
        "the thread that continues after another ends is the lowest-numbered one unless a preemption says otherwise); (4) equal twins: on classes "
        "with float64 / timestamp fields, every sequence up to length 3 of writing and reading two values that are == and hash-equal but "
        "encode differently (0.0 / -0.0; the two instants of a repeated DST hour in their zone); (5) per subject and string / bytes slot: small, HUGE "
        "(2 MiB + 4321 bytes), small, long - written, then read; (6) two distinct classes of one module and qualified name with different layouts, all 24 orders of writing and reading both. Golden results come from the "
        "reference codec. Non-trivial = every history but the empty one, every fault position, every schedule"
    )
    c["exhaustive"] = not run.caps
    c["cold_start_available"] = COLD_START_AVAILABLE
    run.assumptions += [
        "C-level code is atomic under the GIL; preemption inside one source line only in the opcode-traced frames",
        "no free-running data-race detector exists for CPython; none is run",
        "reference codec KRef provides the golden results",
    ]
    return run.finish()


def replay(prop, path):
    rec = json.load(open(path))
    case = from_json(rec["case"])
    acc = Acc()
    subjects()
    if "history" in case:
        L = [tuple(x) for x in letters()]
        hist = tuple(L.index(tuple(op)) for op in case["history"])
        run_history(hist, acc, (0,))
    elif "same_name_history" in case:
        res = _task_same_name(0)
        acc.violations = {v["signature"]: v for v in res["violations"]}
    elif "huge_history" in case:
        res = _task_huge(CLASS_SET.index(case["class"]))
        acc.violations = {v["signature"]: v for v in res["violations"]}
    elif "twin_history" in case:
        res = _task_twins(case["class"])  # the 84 sequences of that class, the recorded one among them
        acc.violations = {v["signature"]: v for v in res["violations"]}
    elif "harness" in case:
        setup, make_bodies, expected = harnesses()[case["harness"]]
        opf = OPCODE_FUNCS if case.get("opcode_points") else ()
        obs = sched.replay_twice(make_bodies, traced_files(), case["schedule"], observe, opf, setup)
        for tid, (st, v) in enumerate(obs):
            if st != "ok" or v != expected[tid]:
                print(f"VIOLATION property={prop} replay={path}")
                print(f"  thread {tid}: expected {expected[tid]!r:.200}\n  observed {v!r:.200}")
                return 1
    else:
        idx = next(i for i, t in enumerate(all_classes()) if f"{t[4].__module__}:{t[4].__qualname__}" == rec["class"])
        res = _task_faults([idx])
        acc.violations = {v["signature"]: v for v in res["violations"]}
    res = acc.result()
    if res["violations"]:
        v = res["violations"][0]
        print(f"VIOLATION property={prop} replay={path}")
        print(f"  signature={v['signature']}\n  expected: {v['expected'][:400]}\n  observed: {v['observed'][:400]}")
        return 1
    print(f"replay {path}: no violation on the current tree")
    return 0
