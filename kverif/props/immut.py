"""C15 - entities are immutable, hashable value objects: static dataclass options for every class and
dynamic mutation / equality / hash / copy / pickle checks on every k<=1 instance, on its decoded copy
and on what the decoder returns from a short-reading raw source."""

from __future__ import annotations

import copy
import dataclasses
import datetime
import enum
import io
import json
import pickle
import uuid

from .. import bridge, streams, values
from ..core import Acc, Run, chunks, exc_name, from_json, pmap, short, violation
from ..schema_walk import all_classes, load_class, wire_schema
from .codec import kio_encode

IMMUTABLE_LEAVES = (int, str, bytes, float, bool, type(None), uuid.UUID, datetime.datetime, datetime.timedelta, enum.Enum)


def mutable_part(v, path=""):
    """Path of the first mutable (or non-value) object inside v, or None."""
    if isinstance(v, tuple):
        for i, x in enumerate(v):
            m = mutable_part(x, f"{path}[{i}]")
            if m:
                return m
        return None
    if dataclasses.is_dataclass(v) and not isinstance(v, type):
        if not v.__dataclass_params__.frozen:
            return f"{path}: non-frozen {type(v).__name__}"
        for f in dataclasses.fields(v):
            m = mutable_part(getattr(v, f.name), f"{path}.{f.name}")
            if m:
                return m
        return None
    if isinstance(v, IMMUTABLE_LEAVES) and not isinstance(v, (bytearray, memoryview)):
        return None
    return f"{path}: {type(v).__name__}"


def static_checks(cls, path, acc, order):
    acc.add("evaluations")
    P = cls.__dataclass_params__
    case = {"class": path}
    if not (P.frozen and P.eq) or P.order or P.unsafe_hash:
        acc.report(violation("C15", "static", "C15/static/dataclass-options", path, case, "frozen=True, eq=True",
                             f"frozen={P.frozen} eq={P.eq} order={P.order} unsafe_hash={P.unsafe_hash}", order))
        return False
    if "__slots__" not in vars(cls) or any("__dict__" in vars(k) for k in cls.__mro__[:-1]):
        acc.report(violation("C15", "static", "C15/static/has-instance-dict", path, case, "__slots__, no __dict__", "instances have a __dict__", order))
        return False
    if cls.__hash__ is None:
        acc.report(violation("C15", "static", "C15/static/unhashable-class", path, case, "hashable", "__hash__ is None", order))
        return False
    odd = [f.name for f in dataclasses.fields(cls) if not (f.compare and f.init) or f.hash is False]
    if odd:
        acc.report(violation("C15", "static", "C15/static/field-excluded-from-equality-or-hash", path, dict(case, fields=odd),
                             "every field takes part in == and hash", str(odd), order))
        return False
    names = [f.name for f in dataclasses.fields(cls)]
    if sorted(vars(cls)["__slots__"]) != sorted(names):
        acc.report(violation("C15", "static", "C15/static/slots-differ-from-fields", path, case, str(names), str(vars(cls)["__slots__"]), order))
        return False
    return True


def dynamic_checks(x, make_again, path, case, acc, order, origin):
    """x: an instance; make_again(): an independently built equal instance."""
    acc.add("evaluations")
    cls = type(x)

    def bad(sig, exp, obs):
        acc.report(violation("C15", origin, f"C15/{origin}/{sig}", path, case, exp, obs, order))
        return False

    m = mutable_part(x)
    if m:
        return bad("mutable-field-value", "only immutable field values", m)
    if hasattr(x, "__dict__"):
        return bad("instance-has-dict", "no per-instance dictionary", "has __dict__")
    try:
        twin = make_again()
        h = hash(x)
    except Exception as e:  # noqa: BLE001
        return bad(f"hash-raised/{exc_name(e)}", "hashable", repr(e)[:200])
    if not (x == twin) or hash(twin) != h or (x != twin):
        return bad("equal-instances-unequal-or-hash-differs", "x == twin and hash(x) == hash(twin)", f"{x == twin}, {hash(twin) == h}")
    for f in dataclasses.fields(cls):
        old = getattr(x, f.name)
        for op, fn in (("setattr", lambda: setattr(x, f.name, old)), ("setattr-other", lambda: setattr(x, f.name, None)),
                       ("delattr", lambda: delattr(x, f.name))):
            try:
                fn()
                raised = None
            except (dataclasses.FrozenInstanceError, AttributeError, TypeError) as e:
                raised = e
            except Exception as e:  # noqa: BLE001
                return bad(f"{op}-raised-{exc_name(e)}", "FrozenInstanceError / AttributeError", repr(e)[:200])
            if raised is None:
                return bad(f"{op}-accepted", "assignment and deletion are rejected", f"{op} on .{f.name} succeeded")
        if not (x == twin):
            return bad("changed-by-rejected-mutation", "instance unchanged", repr(x)[:300])
    try:
        setattr(x, "brand_new_attribute", 1)
        return bad("new-attribute-accepted", "no new attributes", "setattr of a new name succeeded")
    except (dataclasses.FrozenInstanceError, AttributeError, TypeError):
        pass
    # copies
    for name, fn in (("copy.copy", copy.copy), ("copy.deepcopy", copy.deepcopy), ("dataclasses.replace", dataclasses.replace)):
        try:
            y = fn(x)
        except Exception as e:  # noqa: BLE001
            return bad(f"{name}-raised/{exc_name(e)}", "copying works", repr(e)[:200])
        if type(y) is not cls or not (y == x) or hash(y) != h or not (x == twin):
            return bad(f"{name}-not-equal", "an equal instance, original unchanged", repr(y)[:300])
    for proto in range(0, pickle.HIGHEST_PROTOCOL + 1):
        try:
            y = pickle.loads(pickle.dumps(x, protocol=proto))
        except Exception as e:  # noqa: BLE001
            return bad(f"pickle-raised/{exc_name(e)}", f"pickle protocol {proto} round-trips", repr(e)[:200])
        if type(y) is not cls or not (y == x) or hash(y) != h or y is x or not (x == twin):
            return bad("pickle-not-equal-new-instance", "an equal new instance, original unchanged", repr(y)[:300])
    return True


def fieldwise_equal(a, b):
    return all(getattr(a, f.name) == getattr(b, f.name) for f in dataclasses.fields(a))


def _task(arg):
    from kio.serial import entity_reader

    idxs, cfg = arg
    acc = Acc()
    for idx in idxs:
        api, ver, typ, mod, cls = all_classes()[idx]
        ws = wire_schema(cls)
        if not static_checks(cls, ws.path, acc, (idx,)):
            continue
        base = None
        ex = values.Explorer(ws, cfg["k"], "value", 32767, cap=cfg["cap"])  # payloads beyond one I/O buffer (8 KiB) included
        seen = set()
        n = 0
        for cost, w, edits in ex:
            hsh = hash(values.freeze(w))
            if hsh in seen:
                continue
            seen.add(hsh)
            n += 1
            acc.add("instances")
            x = bridge.to_entity(ws, w)
            case = {"class": ws.path, "wire": w}
            ok = dynamic_checks(x, lambda: bridge.to_entity(ws, w), ws.path, case, acc, (idx, cost, n), "constructed")
            if not ok:
                continue
            if cost == 0:
                base = x
            elif base is not None:
                # along the deviation edge base -> x: == exactly when all fields are equal, hash consistent
                acc.add("evaluations")
                eq = x == base
                if eq != fieldwise_equal(x, base) or (eq and hash(x) != hash(base)) or ((x != base) == eq):
                    acc.report(violation("C15", "equality", "C15/equality/eq-not-fieldwise-or-hash-inconsistent", ws.path, case,
                                         f"== is {fieldwise_equal(x, base)}", f"== gave {eq}", (idx, cost, n)))
                    continue
            # what the decoder returns
            enc = kio_encode(cls, x)
            for origin, src in (("decoded", io.BytesIO(enc)), ("decoded-from-short-reading-raw-source", streams.DribbleRaw(enc, 3))):
                try:
                    d = entity_reader(cls)(src)
                except Exception:  # noqa: BLE001 - a raw short-reading source may legitimately be rejected
                    acc.outcome(f"{origin}: rejected (counted)")
                    continue
                if dynamic_checks(d, lambda: bridge.to_entity(ws, w), ws.path, dict(case, origin=origin), acc, (idx, cost, n), origin):
                    acc.outcome(f"{origin}: immutable value object")
            if cost == 1 and len(acc.samples) < 1:
                acc.sample({"class": ws.path, "wire": short(w, 200), "checks": "setattr/delattr/new attr, hash, ==, copy, deepcopy, replace, pickle 0-5, on constructed and decoded instances"})
        # one more deviation per string / bytes / records slot: a payload of 2 MiB + 4321 bytes, decoded copy only
        # (a reader that hands out its own large scratch buffer instead of an immutable copy shows only beyond some size)
        for hn, w in enumerate(values.huge_instances(ex.tree)):
            acc.add("instances")
            acc.add("huge_payload_instances")
            case = {"class": ws.path, "wire": w, "origin": "decoded-huge"}
            try:
                d = entity_reader(cls)(io.BytesIO(kio_encode(cls, bridge.to_entity(ws, w))))
            except Exception:  # noqa: BLE001 - accepting it is C01/C03's business
                acc.outcome("decoded-huge: rejected (counted)")
                continue
            if dynamic_checks(d, lambda: bridge.to_entity(ws, w), ws.path, case, acc, (idx, 1, 10**7 + hn), "decoded-huge"):
                acc.outcome("decoded-huge: immutable value object")
        acc.add("classes")
        if ex.capped:
            acc.caps.append(f"{ws.path}: instance cap hit, completed k={ex.k}")
    return acc.result()


def perturb(v):
    """A value of the same kind that differs from v (for single-field perturbation)."""
    if isinstance(v, bool):
        return not v
    if isinstance(v, int):
        return v + 1 if v < 100 else v - 1
    if isinstance(v, bytes):
        return v + b"x"
    if v is None:
        return b"x"
    if isinstance(v, tuple):
        return v[:-1] if v else NotImplemented
    if isinstance(v, datetime.datetime):
        return v + datetime.timedelta(milliseconds=1) if v.year < 9999 else v - datetime.timedelta(milliseconds=1)
    return NotImplemented


def record_instances():
    """instances of the four record classes, from the C17 exploration (k<=1) and a read batch"""
    from kio.records.readers import read_batch

    from pins.record_batches_v2 import BATCHES

    from . import records

    out = []
    for cost, w, edits in records.explore_batches(1):
        nb, sub = records.to_model(w)
        if not records.in_domain(nb):
            continue
        out.append(("kio.records.schema:NewRecordBatch", lambda nb=nb: records.kio_new_batch(nb)))
        r0 = nb["records"][0]
        out.append(("kio.records.schema:Record", lambda r0=r0: records.kio_record(r0)))
        if r0["headers"]:
            from kio.records.schema import RecordHeader

            k, v = r0["headers"][0]
            out.append(("kio.records.schema:RecordHeader", lambda k=k, v=v: RecordHeader(key=k, value=v)))
    for b in BATCHES:
        out.append(("kio.records.schema:RecordBatch", lambda b=b: read_batch(io.BytesIO(b))))
    return out


def run_c15(tier):
    run = Run("C15", tier, "exploration")
    cfg = {"k": 1, "cap": 4000} if tier == "quick" else {"k": 2, "cap": 3000}
    order = list(range(len(all_classes())))
    run.rng.shuffle(order)
    for res in pmap(_task, [(c, cfg) for c in chunks(order, 8)]):
        run.merge(res)
    acc = Acc()
    import kio.records.schema as rs

    for name in ("RecordHeader", "Record", "RecordBatch", "NewRecordBatch"):
        static_checks(getattr(rs, name), f"kio.records.schema:{name}", acc, (name,))
    for n, (path, make) in enumerate(record_instances()):
        acc.add("instances")
        x = make()
        if dynamic_checks(x, make, path, {"class": path, "n": n}, acc, (n,), "records"):
            acc.outcome("record class instance: immutable value object")
        # equality is exactly field-wise: changing any single field gives an unequal instance
        for f in dataclasses.fields(x):
            old = getattr(x, f.name)
            alt = perturb(old)
            if alt is NotImplemented:
                continue
            acc.add("evaluations")
            try:
                y = dataclasses.replace(x, **{f.name: alt})
            except Exception as e:  # noqa: BLE001
                acc.report(violation("C15", "equality", f"C15/equality/replace-of-one-field-raised/{exc_name(e)}", path,
                                     {"class": path, "field": f.name}, "dataclasses.replace works for every field", repr(e)[:200], (n, f.name)))
                continue
            if y == x or not (y != x):
                acc.report(violation("C15", "equality", "C15/equality/instances-differing-in-one-field-compare-equal", path,
                                     {"class": path, "field": f.name}, "unequal", f"equal although .{f.name} differs", (n, f.name)))
    run.merge(acc.result())
    c = run.cov
    c["distinct_nontrivial"] = c.get("instances", 0)
    c["rule"] = (f"all {len(all_classes())} entity classes and the 4 record classes: static dataclass options (frozen, eq, slots = fields, "
                 f"no __dict__, hashable); for every instance within k<={cfg['k']} deviations, its decoded copy and what the decoder returns "
                 "from a 3-byte-dribbling raw source (if anything), and for the decoded copy of the base instance with a 2 MiB + 4321 "
                 "byte payload in each string / bytes / records slot in turn: setattr / delattr on every field and setattr of a new name are rejected and "
                 "leave the instance equal to an independently built twin; field values immutable recursively; hash equal for equal instances; "
                 "== along every deviation edge is exactly field-wise equality; copy, deepcopy, dataclasses.replace and pickle (all protocols) "
                 "give equal instances of the same class and leave the original unchanged")
    c["exhaustive"] = not run.caps
    c["bounds"] = cfg
    return run.finish()


def replay(prop, path):
    rec = json.load(open(path))
    print("replay of C15 re-checks the class of the recorded case")
    case = from_json(rec["case"])
    if rec["class"].startswith("kio.records"):
        return run_c15("quick")
    idx = next(i for i, t in enumerate(all_classes()) if f"{t[4].__module__}:{t[4].__qualname__}" == rec["class"])
    res = _task(([idx], {"k": 1, "cap": 4000}))
    if res["violations"]:
        v = res["violations"][0]
        print(f"VIOLATION property={prop} replay={path}")
        print(f"  signature={v['signature']}\n  expected: {v['expected'][:400]}\n  observed: {v['observed'][:400]}")
        return 1
    print(f"replay {path}: no violation on the current tree")
    return 0
