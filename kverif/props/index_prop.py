"""C09 - the dynamic index resolves every known entity and nothing else.  Exhaustive over all index
entries x lookup functions, all near misses, plus a two-thread cold-import exploration of the lookup
functions (the only scheduling the lookups are exposed to: Python's per-module import lock)."""

from __future__ import annotations

import importlib
import json
import sys
import threading

from ..core import Acc, HarnessError, Run, exc_name, from_json, violation
from ..schema_walk import all_classes, disk_modules
from .config import modules_by_key, pin_apis, top_level

ODD_INTS = [-(2**31), -1, 88, 89, 2**15, 2**31, 2**63]
ODD_NAMES = ["", "Metadata", "metadata ", "métadata", "index", "errors", "types", "METADATA", "request_header.v0"]


def _call(fn, *a):
    try:
        return ("ok", fn(*a))
    except BaseException as e:  # noqa: BLE001
        return ("exc", e)


def run_c09(tier):
    from kio import index
    from kio.schema import index as sindex
    from kio.static.constants import EntityType

    run = Run("C09", tier, "exploration")
    acc = Acc(max_samples=6)
    pins = pin_apis()
    mods = modules_by_key()
    ET = {"request": EntityType.request, "response": EntityType.response, "header": EntityType.header, "data": EntityType.data}
    key_of = {api: e["key"] for api, e in pins.items() if e["key"] is not None}

    def expect_ok(what, res, want, case, o):
        acc.add("evaluations")
        if res[0] != "ok" or res[1] is not want:
            acc.report(violation("C09", "valid", f"C09/valid-lookup/{what}/{'raised-' + exc_name(res[1]) if res[0] == 'exc' else 'wrong-result'}",
                                 case["entry"], case, repr(want)[:200], repr(res[1])[:300], o))
            return False
        return True

    def expect_exc(what, res, exc, case, o):
        acc.add("evaluations")
        acc.add("near_misses")
        if res[0] == "exc" and isinstance(res[1], exc):
            acc.outcome(f"{exc.__name__}")
            return True
        acc.report(violation("C09", "invalid", f"C09/invalid-lookup/{what}/{'returned' if res[0] == 'ok' else exc_name(res[1])}",
                             str(case.get("args")), case, exc.__name__, repr(res[1])[:300], o))
        return False

    # 1. every entry on disk resolves through all applicable functions to the exact module / class
    for (api, ver, typ), (mod, classes) in sorted(mods.items()):
        top = top_level(mod, typ)[0]
        case = {"entry": f"{api}/v{ver}/{typ}"}
        o = (api, ver, typ)
        good = expect_ok("load_entity_module", _call(index.load_entity_module, api, ver, ET[typ]), mod, case, o)
        good &= expect_ok("load_entity_schema", _call(index.load_entity_schema, api, ver, ET[typ]), top, case, o)
        if typ in ("request", "response"):
            k = key_of[api]
            good &= expect_ok("load_payload_module", _call(index.load_payload_module, k, ver, ET[typ]), mod, case, o)
            fn = index.load_request_schema if typ == "request" else index.load_response_schema
            good &= expect_ok(fn.__name__, _call(fn, k, ver), top, case, o)
        if good:
            acc.outcome("entry resolves to the exact module and class")
    # 2. reachability / bijection, straight from the shipped maps
    acc.add("evaluations")
    listed = {(n, v, t.name) for n, vm in sindex.schema_name_map.items() for v, tm in vm.items() for t in tm}
    on_disk = {(a, v, t) for a, v, t, _ in disk_modules()}
    if listed != on_disk:
        acc.report(violation("C09", "reachability", "C09/index-and-disk-differ", "schema_name_map", {"only_index": sorted(listed - on_disk)[:5], "only_disk": sorted(on_disk - listed)[:5]},
                             "every schema module is reachable through the index and nothing else is listed",
                             f"only in index {sorted(listed - on_disk)[:5]}, only on disk {sorted(on_disk - listed)[:5]}", (0,)))
    for n, vm in sindex.schema_name_map.items():
        for v, tm in vm.items():
            for t, path in tm.items():
                acc.add("evaluations")
                want = f"kio.schema.{n}.v{v}.{t.name}:"
                if not path.startswith(want):
                    acc.report(violation("C09", "reachability", "C09/index-entry-points-elsewhere", f"{n}/v{v}/{t.name}", {"entry": f"{n}/v{v}/{t.name}"}, want + "<Class>", path, (n, v)))
    acc.add("evaluations")
    km = dict(sindex.api_key_map)
    if km != {k: a for a, k in key_of.items()} or len(set(km.values())) != len(km):
        acc.report(violation("C09", "keys", "C09/api-key-map-not-the-pinned-bijection", "api_key_map", {"n": len(km)}, "88 keys one-to-one with the pinned names",
                             str(sorted(set(km.items()) ^ set((k, a) for a, k in key_of.items()))[:6]), (0,)))
    # 3. near misses
    all_types = list(ET.values())
    for api, e in sorted(pins.items()):
        have = e["types"]
        for tname, et in ET.items():
            if tname in have:
                lo, hi = have[tname]["min"], have[tname]["max"]
                for v in (lo - 1, hi + 1, hi + 1000, -1):
                    case = {"args": [api, v, tname]}
                    expect_exc("load_entity_schema", _call(index.load_entity_schema, api, v, et), index.UnknownEntity, case, (api, v))
                    expect_exc("load_entity_module", _call(index.load_entity_module, api, v, et), index.UnknownEntity, case, (api, v))
                    if e["key"] is not None:
                        fn = index.load_request_schema if tname == "request" else index.load_response_schema
                        expect_exc(fn.__name__, _call(fn, e["key"], v), index.UnknownEntity, case, (api, v))
                        expect_exc("load_payload_module", _call(index.load_payload_module, e["key"], v, et), index.UnknownEntity, case, (api, v))
            else:
                for v in (0, 1):
                    case = {"args": [api, v, tname]}
                    expect_exc("load_entity_schema", _call(index.load_entity_schema, api, v, et), index.UnknownEntity, case, (api, v))
                    expect_exc("load_entity_module", _call(index.load_entity_module, api, v, et), index.UnknownEntity, case, (api, v))
        # entity type nested is never loadable
        case = {"args": [api, 0, "nested"]}
        expect_exc("load_entity_schema", _call(index.load_entity_schema, api, 0, EntityType.nested), index.UnknownEntity, case, (api, 0))
    keys = set(km)
    for k in sorted({x + d for x in keys for d in (-1, 1)} - keys) + ODD_INTS:
        case = {"args": [k]}
        for fn in (index.load_request_schema, index.load_response_schema):
            expect_exc(fn.__name__, _call(fn, k, 0), index.UnknownAPIKey, case, (k,))
        expect_exc("load_payload_module", _call(index.load_payload_module, k, 0, EntityType.request), index.UnknownAPIKey, case, (k,))
    # other spellings of every valid name: separators replaced or dropped, case changed, blanks added, camel case
    respelled = set()
    for api in pins:
        words = api.split("_")
        respelled |= {api.upper(), api.title(), " " + api, api + " ", api + "_", "_" + api, "".join(w.title() for w in words)}
        if len(words) > 1:
            respelled |= {"-".join(words), " ".join(words), "".join(words), ".".join(words), words[0] + "-" + "_".join(words[1:]),
                          words[0] + "".join(w.title() for w in words[1:])}
    respelled -= set(pins)
    for n in sorted(respelled) + ODD_NAMES:
        for et in (EntityType.request, EntityType.header, EntityType.data):
            case = {"args": [n, 0, et.name]}
            expect_exc("load_entity_schema", _call(index.load_entity_schema, n, 0, et), index.UnknownEntity, case, (n,))
            expect_exc("load_entity_module", _call(index.load_entity_module, n, 0, et), index.UnknownEntity, case, (n,))
    for v in ODD_INTS:
        case = {"args": ["metadata", v]}
        expect_exc("load_entity_schema", _call(index.load_entity_schema, "metadata", v, EntityType.request), index.UnknownEntity, case, (v,))
        expect_exc("load_request_schema", _call(index.load_request_schema, 3, v), index.UnknownEntity, case, (v,))
    # 3b. arguments of the wrong Python type that are NOT equal to a valid key (numeric strings, non-integral floats,
    # infinities): they are "any other key / version" and must raise the documented error, not be coerced to a
    # neighbouring entry.  (3.0 == 3 and True == 1 are Python's dict semantics and are deliberately not used.)
    for k in ("3", " 3", "1_8", 3.9, -0.5, 87.9, 0.5, float("inf"), float("-inf"), float("nan"), b"3", None, (3,)):
        case = {"args": [repr(k)]}
        for fn in (index.load_request_schema, index.load_response_schema):
            expect_exc(fn.__name__ + "/ill-typed-key", _call(fn, k, 0), index.UnknownAPIKey, case, (repr(k),))
        expect_exc("load_payload_module/ill-typed-key", _call(index.load_payload_module, k, 0, EntityType.request), index.UnknownAPIKey, case, (repr(k),))
    for v in ("12", "0", 12.99, -0.9, 0.5, float("inf"), float("nan"), None, b"1"):
        case = {"args": ["metadata", repr(v)]}
        expect_exc("load_entity_schema/ill-typed-version", _call(index.load_entity_schema, "metadata", v, EntityType.request), index.UnknownEntity, case, (repr(v),))
        expect_exc("load_request_schema/ill-typed-version", _call(index.load_request_schema, 3, v), index.UnknownEntity, case, (repr(v),))
    # 3c. histories: every sequence up to length 4 over valid and invalid lookups (the same one repeated included);
    # each call is judged by its own arguments, whatever was looked up before
    import itertools

    def top_of(api, ver, typ):
        return top_level(mods[(api, ver, typ)][0], typ)[0]

    letters = [
        (index.load_entity_schema, ("metadata", 12, ET["request"]), top_of("metadata", 12, "request")),
        (index.load_entity_schema, ("metadata", 13, ET["request"]), index.UnknownEntity),
        (index.load_entity_schema, ("fetch", 4, ET["response"]), top_of("fetch", 4, "response")),
        (index.load_request_schema, (3, 12), top_of("metadata", 12, "request")),
        (index.load_request_schema, (3, 13), index.UnknownEntity),
        (index.load_response_schema, (999, 0), index.UnknownAPIKey),
    ]
    nseq = 0
    for d in (1, 2, 3, 4):
        for seq in itertools.product(range(len(letters)), repeat=d):
            nseq += 1
            for step, li in enumerate(seq):
                fn, args, want = letters[li]
                res = _call(fn, *args)
                case = {"entry": f"{fn.__name__}{args[:2]}", "args": [fn.__name__, *map(str, args)], "lookup_history": [[letters[i][0].__name__, *map(str, letters[i][1])] for i in seq], "step": step}
                if isinstance(want, type) and issubclass(want, Exception):
                    if not expect_exc(f"{fn.__name__}/after-other-lookups", res, want, case, (d, nseq)):
                        break
                elif not expect_ok(f"{fn.__name__}/after-other-lookups", res, want, case, (d, nseq)):
                    break
    acc.add("lookup_histories", nseq)
    # 4. the generator's own index builder on the current package equals the shipped maps
    acc.add("evaluations")
    try:
        from ..core import REPO

        sys.path.insert(0, REPO)
        gi = importlib.import_module("codegen.generate_index")
        built = gi.build_index()
        shipped = {n: {v: {t: p for t, p in tm.items()} for v, tm in vm.items()} for n, vm in sindex.schema_name_map.items()}
        b2 = {n: {v: {t: p for t, p in tm.items()} for v, tm in vm.items()} for n, vm in (built[0] if isinstance(built, tuple) else built).items()}
        if b2 != shipped:
            acc.report(violation("C09", "generated", "C09/build_index-differs-from-shipped-index", "codegen.generate_index", {"n": len(b2)},
                                 "build_index() on the current package equals kio.schema.index", "differs", (0,)))
        else:
            acc.outcome("build_index() equals the shipped map")
    except Exception as e:  # noqa: BLE001
        run.notes["build_index_note"] = f"codegen.generate_index.build_index not usable here: {e!r}"[:200]
    finally:
        if REPO in sys.path:
            sys.path.remove(REPO)
    acc.sample({"valid": ["metadata", 12, "request"], "near_misses": [["metadata", 13, "request"], ["api key 88"], ["Metadata", 0, "request"]]})
    run.merge(acc.result())
    # 5. cold-import races
    racc = Acc()
    nrace = cold_import_races(racc, tier)
    run.merge(racc.result())
    lacc = Acc()
    nlazy = lazy_global_schedules(lacc, tier)
    run.merge(lacc.result())
    # a lookup after the schema module was reloaded returns the module's CURRENT class (sequence: look up, reload the
    # module with importlib.reload, look up again).  Last, because reloading replaces class objects.
    racc2 = Acc()
    for api, ver, typ in RACE_ENTRIES:
        modname = f"kio.schema.{api}.v{ver}.{typ}"
        racc2.add("evaluations")
        try:
            first = index.load_entity_schema(api, ver, ET[typ])
            mod = importlib.reload(sys.modules[modname])
            second = index.load_entity_schema(api, ver, ET[typ])
            m2 = index.load_entity_module(api, ver, ET[typ])
            ok = second is getattr(mod, first.__name__) and m2 is mod
            obs = f"{second!r} (id {id(second)}), current {getattr(mod, first.__name__)!r} (id {id(getattr(mod, first.__name__))})"
        except Exception as e:  # noqa: BLE001
            ok, obs = False, repr(e)
        if not ok:
            racc2.report(violation("C09", "reload", "C09/reload/lookup-returns-a-stale-object-after-module-reload", modname, {"module": modname},
                                   "the module's current class / the current module object", obs[:300], (api, ver)))
        else:
            racc2.outcome("lookup after reload returns the current class")
    run.merge(racc2.result())
    c = run.cov
    c["first_lookup_schedules"] = nlazy
    c["cold_import_schedules"] = nrace
    c["distinct_nontrivial"] = c.get("near_misses", 0) + len(mods)
    c["rule"] = ("all index entries on disk x every applicable load_* function (exact module/class identity); index vs disk "
                 "module set; key<->name bijection against the pinned table; near misses: for every API version min-1 / max+1 / "
                 "max+1000 / -1, every entity type it lacks, 'nested', key+-1 when not a key, odd integers and strings - each must "
                 "raise exactly UnknownAPIKey / UnknownEntity; codegen's build_index() on the current package; and for a set of "
                 "modules x lookup functions, 2 threads looking up the same cold module with thread A paused at each of the "
                 "import stages (registered in sys.modules / body half executed / done); and 2 threads performing the first lookups of a "
                 "freshly (re)loaded kio.index with every source line of kio/index.py a scheduling point, preemption bound 1 (thorough 2)")
    c["exhaustive"] = True
    return run.finish()


# ---------------------------------------------------------------------------------------
# cold import exploration: thread A imports module M and is paused at a controlled stage; thread B
# performs the same lookup.  If B blocks (import lock), A is resumed - a valid schedule.
# ---------------------------------------------------------------------------------------
RACE_ENTRIES = [("fetch", 17, "request"), ("metadata", 12, "response"), ("api_versions", 3, "request"),
                ("produce", 11, "response"), ("request_header", 2, "header"), ("consumer_protocol_subscription", 3, "data")]


class _PausingLoader:
    def __init__(self, loader, stage, reached, resume):
        self.loader, self.stage, self.reached, self.resume = loader, stage, reached, resume

    def create_module(self, spec):
        return self.loader.create_module(spec)

    def exec_module(self, module):
        if self.stage == "before-body":
            self.reached.set()
            self.resume.wait(30)
            return self.loader.exec_module(module)
        # half-body: execute the module source up to its first class definition, pause, then all of it
        src = self.loader.get_source(module.__name__)
        cut = src.index("@dataclass")
        exec(compile(src[:cut], module.__file__, "exec"), module.__dict__)  # noqa: S102 - the module's own source
        self.reached.set()
        self.resume.wait(30)
        return self.loader.exec_module(module)


class _Finder:
    def __init__(self, target, stage, reached, resume):
        self.target, self.stage, self.reached, self.resume = target, stage, reached, resume
        self.used = False

    def find_spec(self, name, path, target=None):
        if name != self.target or self.used:
            return None
        self.used = True
        from importlib.machinery import PathFinder

        spec = PathFinder.find_spec(name, path)
        if spec is None:
            return None
        spec.loader = _PausingLoader(spec.loader, self.stage, self.reached, self.resume)
        return spec


def cold_import_races(acc, tier):
    from kio import index
    from kio.static.constants import EntityType

    pins = pin_apis()
    ET = {"request": EntityType.request, "response": EntityType.response, "header": EntityType.header, "data": EntityType.data}
    n = 0
    entries = RACE_ENTRIES if tier == "thorough" else RACE_ENTRIES[:4]
    for api, ver, typ in entries:
        modname = f"kio.schema.{api}.v{ver}.{typ}"
        fns = [("load_entity_schema", lambda: index.load_entity_schema(api, ver, ET[typ])),
               ("load_entity_module", lambda: index.load_entity_module(api, ver, ET[typ]))]
        if typ in ("request", "response"):
            k = pins[api]["key"]
            f = index.load_request_schema if typ == "request" else index.load_response_schema
            fns.append((f.__name__, lambda f=f, k=k: f(k, ver)))
        for fname, fn in fns:
            for stage in ("before-body", "half-body", "none"):
                n += 1
                acc.add("evaluations")
                saved = {m: sys.modules.pop(m) for m in list(sys.modules) if m == modname}
                pkg = sys.modules.get(modname.rsplit(".", 1)[0])
                had_attr = None
                if pkg is not None and hasattr(pkg, typ):
                    had_attr = getattr(pkg, typ)
                    delattr(pkg, typ)
                reached, resume = threading.Event(), threading.Event()
                finder = _Finder(modname, stage, reached, resume)
                res = {}
                if stage != "none":
                    sys.meta_path.insert(0, finder)
                try:
                    ta = threading.Thread(target=lambda: res.__setitem__("A", _call(fn)), daemon=True)
                    tb = threading.Thread(target=lambda: res.__setitem__("B", _call(fn)), daemon=True)
                    ta.start()
                    if stage != "none":
                        # wait until A is paused inside the import - or has finished without importing anything
                        # (an implementation may legitimately answer from what it resolved earlier)
                        while not reached.wait(0.05):
                            if not ta.is_alive():
                                break
                        else:
                            pass
                    tb.start()
                    tb.join(0.3 if stage != "none" else 30)  # B may legitimately block on the import lock
                    resume.set()
                    ta.join(30)
                    tb.join(30)
                    if ta.is_alive() or tb.is_alive():
                        raise HarnessError(f"cold-import harness for {modname} did not finish")
                finally:
                    if finder in sys.meta_path:
                        sys.meta_path.remove(finder)
                case = {"module": modname, "function": fname, "thread_A_paused_at": stage}
                want_mods = [m for m in (sys.modules.get(modname), saved.get(modname)) if m is not None]
                for t in ("A", "B"):
                    st, v = res[t]
                    ok = st == "ok" and ((fname == "load_entity_module" and any(v is m for m in want_mods) and _complete(v)) or
                                         (fname != "load_entity_module" and isinstance(v, type) and v.__module__ == modname
                                          and any(getattr(m, v.__name__, None) is v for m in want_mods)))
                    if not ok:
                        acc.report(violation("C09", "cold-import", f"C09/cold-import/{fname}/{'raised-' + exc_name(v) if st == 'exc' else 'wrong-or-partial-result'}",
                                             modname, dict(case, thread=t), "both threads get the fully imported module / its class",
                                             repr(v)[:300], (api, ver, stage)))
                        break
                else:
                    acc.outcome("cold lookup race: both threads correct")
                # restore original module objects so that class identities used elsewhere stay valid
                for m, obj in saved.items():
                    sys.modules[m] = obj
                if had_attr is not None:
                    setattr(pkg, typ, had_attr)
    return n


def lazy_global_schedules(acc, tier):
    """Two threads performing the FIRST lookups of a process: kio.index is reloaded before every execution so
    that any lazily built module-level table starts empty, and every source line of kio/index.py is a scheduling
    point (preemption bound 1; thorough 2).  Both threads must get exactly what a sequential lookup gives."""
    import importlib

    import kio.index
    from kio.static.constants import EntityType

    from .. import sched

    files = frozenset([kio.index.__file__])
    pins = pin_apis()
    last_api = sorted(pins)[-1]
    lt = sorted(pins[last_api]["types"])[0]
    ET = {"request": EntityType.request, "response": EntityType.response, "header": EntityType.header, "data": EntityType.data}

    def call(name, *a):
        def body():
            try:
                return ("ok", getattr(kio.index, name)(*a))
            except Exception as e:  # noqa: BLE001
                return ("exc", type(e).__name__)

        return body

    pairs = {
        "same-entry": [call("load_request_schema", 1, 17), call("load_request_schema", 1, 17)],
        "first-and-last-entry": [call("load_request_schema", 0, 0), call("load_entity_schema", last_api, pins[last_api]["types"][lt]["max"], ET[lt])],
        "by-key-and-by-name": [call("load_response_schema", 3, 12), call("load_entity_module", "fetch", 17, ET["request"])],
        "valid-and-near-miss": [call("load_entity_schema", "metadata", 12, ET["response"]), call("load_entity_schema", "metadata", 13, ET["response"])],
        "pairing": [call("load_response_schema", 18, 3), call("load_request_schema", 18, 3)],
    }
    total = 0
    for name, bodies in pairs.items():
        importlib.reload(kio.index)
        expected = [b() for b in bodies]

        def check(ex, schedule, name=name, expected=expected):
            acc.add("evaluations")
            for tid, (st, v) in enumerate(ex.results):
                got = v if st == "ok" else ("exc", repr(v))
                if got != expected[tid]:
                    acc.report(violation("C09", "first-lookups", f"C09/first-lookups/{'raised-' + got[1] if got[0] == 'exc' else 'wrong-result'}", name,
                                         {"harness": name, "schedule": schedule, "thread": tid}, repr(expected[tid])[:200], repr(got)[:300],
                                         (schedule["preemptions"], len(str(schedule)))))
                    return
            acc.outcome("concurrent first lookups: both threads as sequential")

        st = sched.explore(lambda bodies=bodies: list(bodies), files, 1 if tier == "quick" else 2, check, (), lambda: importlib.reload(kio.index))
        total += st["schedules"]
    importlib.reload(kio.index)
    return total


def _complete(mod):
    import dataclasses

    return any(isinstance(v, type) and dataclasses.is_dataclass(v) and v.__module__ == mod.__name__ for v in vars(mod).values())


def replay(prop, path):
    rec = json.load(open(path))
    print(f"replay of C09 cases re-runs the whole sweep (it is exhaustive and takes seconds)")
    return run_c09("quick")
