"""C11 (primitive readers/writers) and C12 (primitive value types): exhaustive small domains plus
boundary lattices, judged by independent primitive codecs / independent membership predicates."""

from __future__ import annotations

import datetime
import io
import itertools
import json
import math
import struct
import types

from .. import bridge, refcodec
from ..core import Acc, HarnessError, Run, chunks, exc_name, pmap, short, violation

PINNED_NAMES = {
    "readers": ['read_exact', 'read_boolean', 'read_int8', 'read_int16', 'read_int32', 'read_int64', 'read_uint8', 'read_uint16', 'read_uint32', 'read_uint64', 'read_unsigned_varint', 'read_signed_varint', 'read_unsigned_varlong', 'read_signed_varlong', 'read_float64', 'read_compact_string_as_bytes', 'read_compact_string_as_bytes_nullable', 'read_compact_string', 'read_compact_string_nullable', 'read_legacy_bytes', 'read_nullable_legacy_bytes', 'read_legacy_string', 'read_nullable_legacy_string', 'read_legacy_array_length', 'read_compact_array_length', 'read_uuid', 'compact_array_reader', 'legacy_array_reader', 'read_error_code', 'read_timedelta_i32', 'read_timedelta_i64', 'tz_aware_from_i64', 'read_datetime_i64', 'read_nullable_datetime_i64'],
    "writers": ['write_boolean', 'write_int8', 'write_int16', 'write_int32', 'write_int64', 'write_uint8', 'write_uint16', 'write_uint32', 'write_uint64', 'write_unsigned_varint', 'write_unsigned_varlong', 'write_signed_varint', 'write_signed_varlong', 'write_float64', 'write_nullable_compact_string', 'write_compact_string', 'write_nullable_legacy_string', 'write_nullable_legacy_bytes', 'write_legacy_string', 'write_legacy_bytes', 'write_empty_tagged_fields', 'write_legacy_array_length', 'write_compact_array_length', 'write_uuid', 'compact_array_writer', 'legacy_array_writer', 'write_tagged_field', 'write_error_code', 'write_timedelta_i32', 'write_timedelta_i64', 'write_datetime_i64', 'write_nullable_datetime_i64'],
}  # fmt: skip

FIXED = {"int8": (1, True), "int16": (2, True), "int32": (4, True), "int64": (8, True),
         "uint8": (1, False), "uint16": (2, False), "uint32": (4, False), "uint64": (8, False)}  # fmt: skip


def R():
    import kio.serial.readers as r

    return r


def W():
    import kio.serial.writers as w

    return w


class RetainingSink:
    """A sink that keeps the very objects it was handed (as a gathering / queueing sink does: asyncio's socket transport
    under back-pressure appends the data object to its deque) next to a copy taken at the time of the write."""

    def __init__(self):
        self.refs, self.snap = [], []

    def write(self, data):
        self.refs.append(data)
        self.snap.append(bytes(data))
        return len(data)

    def getvalue(self):
        return b"".join(self.snap)

    def still_intact(self):
        return all(bytes(r) == s for r, s in zip(self.refs, self.snap))


_PREV = []  # (sink, description) of the previous writer call of this process
ALIASED = {}  # writer name -> example: what was written by an earlier call changed when a later call wrote


def wr(fn, *a):
    """call writer fn(buffer, *a) -> ('ok', bytes) | ('exc', e, bytes written so far).  The sink retains the written
    objects; what an EARLIER call wrote must not change when this call writes (no shared scratch handed to the sink)."""
    b = RetainingSink()
    try:
        fn(b, *a)
        out = ("ok", b.getvalue())
    except BaseException as e:  # noqa: BLE001
        out = ("exc", e, b.getvalue())
    name = getattr(fn, "__name__", "writer")
    for sink, desc in _PREV:
        if not sink.still_intact():
            ALIASED.setdefault(desc[0], {"earlier_call": desc, "later_call": [name, repr(a)[:80]], "written_then": sink.getvalue().hex()[:80],
                                         "object_now": b"".join(bytes(r) for r in sink.refs).hex()[:80]})
    if not b.still_intact():
        ALIASED.setdefault(name, {"earlier_call": [name, repr(a)[:80]], "later_call": "the same call", "written_then": b.getvalue().hex()[:80],
                                  "object_now": b"".join(bytes(r) for r in b.refs).hex()[:80]})
    _PREV[:] = [(b, [name, repr(a)[:80]])]
    return out


def rd(fn, data):
    """call reader fn(buffer) -> ('ok', value, pos) | ('exc', e)"""
    b = io.BytesIO(data)
    try:
        v = fn(b)
        return ("ok", v, b.tell())
    except BaseException as e:  # noqa: BLE001
        return ("exc", e)


def pow2_neighbourhood(max_bits):
    out = set()
    for k in range(0, max_bits + 1):
        for d in (-2, -1, 0, 1, 2):
            out.add(2**k + d)
            out.add(-(2**k) + d)
    return sorted(out)


def bad(acc, part, sig, what, case, exp, obs, order):
    acc.report(violation("C11", part, f"C11/{sig}", what, case, exp, obs, order))


# ---------------------------------------------------------------------------------------
# C11 pieces (each returns an Acc result; run in workers)
# ---------------------------------------------------------------------------------------
def c11_fixed(kind):
    acc = Acc()
    width, signed = FIXED[kind]
    lo, hi = (-(2 ** (8 * width - 1)), 2 ** (8 * width - 1) - 1) if signed else (0, 2 ** (8 * width) - 1)
    w, r = getattr(W(), f"write_{kind}"), getattr(R(), f"read_{kind}")
    dom = range(lo, hi + 1) if width <= 2 else [v for v in pow2_neighbourhood(8 * width) if lo <= v <= hi] + [lo, hi, 0]
    n = 0
    for v in dom:
        n += 1
        acc.add("evaluations")
        want = v.to_bytes(width, "big", signed=signed)
        res = wr(w, v)
        if res[0] != "ok" or res[1] != want:
            bad(acc, "fixed", f"{kind}/writer-wrong-bytes", f"write_{kind}", {"value": v}, want.hex(), repr(res[1:])[:200], (n,))
            continue
        back = rd(r, want + b"\xee")
        if back[0] != "ok" or back[1] != v or type(back[1]) is not int or back[2] != width:
            bad(acc, "fixed", f"{kind}/reader-wrong-value", f"read_{kind}", {"bytes": want}, str(v), repr(back[1:])[:200], (n,))
            continue
        acc.outcome(f"{kind} ok")
    # every byte string of the width is accepted by the reader (8/16 bit exhaustively)
    if width <= 2:
        for t in itertools.product(range(256), repeat=width):
            acc.add("evaluations")
            b = bytes(t)
            back = rd(r, b)
            if back[0] != "ok" or back[1] != int.from_bytes(b, "big", signed=signed):
                bad(acc, "fixed", f"{kind}/reader-wrong-value", f"read_{kind}", {"bytes": b}, str(int.from_bytes(b, "big", signed=signed)), repr(back[1:])[:200], (n,))
    # out of domain: raises and writes nothing
    for v in (lo - 1, hi + 1, 2**64, -(2**64), lo - 2**20, hi + 2**20):
        acc.add("evaluations")
        acc.add("out_of_domain_cases")
        res = wr(w, v)
        if res[0] == "ok":
            bad(acc, "fixed", f"{kind}/out-of-domain-value-written", f"write_{kind}", {"value": v}, "raises", res[1].hex(), (n, v))
        elif res[2]:
            bad(acc, "fixed", f"{kind}/out-of-domain-partial-write", f"write_{kind}", {"value": v}, "writes nothing", res[2].hex(), (n, v))
        else:
            acc.outcome("out-of-domain rejected")
    acc.add("distinct_nontrivial", n)
    acc.sample({"function": f"write_{kind}/read_{kind}", "domain": f"{'all ' + str(n) if width <= 2 else str(n) + ' boundary'} values + out-of-domain"})
    return acc.result()


def ref_varint_read(data, max_bytes):
    r = 0
    for i in range(max_bytes):
        if i >= len(data):
            return ("underflow", None, None)
        b = data[i]
        r |= (b & 0x7F) << (7 * i)
        if not b & 0x80:
            return ("ok", r, i + 1)
    return ("toolong", None, None)


def c11_varint_values(arg):
    """writer minimal-length + reader identity for a chunk of unsigned values and their zig-zag twins"""
    lo, hi = arg
    acc = Acc()
    w, r = W(), R()
    vals = range(lo, hi)
    for v in vals:
        acc.add("evaluations")
        want = refcodec.uvarint(v)
        for wn, rn, lim in (("write_unsigned_varint", "read_unsigned_varint", 2**31 - 1), ("write_unsigned_varlong", "read_unsigned_varlong", 2**63 - 1)):
            if v > lim:
                continue
            res = wr(getattr(w, wn), v)
            if res[0] != "ok" or res[1] != want:
                bad(acc, "varint", f"{wn}/wrong-or-non-minimal-bytes", wn, {"value": v}, want.hex(), repr(res[1:])[:100], (v,))
                continue
            back = rd(getattr(r, rn), want + b"\x80")
            if back[0] != "ok" or back[1] != v or back[2] != len(want):
                bad(acc, "varint", f"{rn}/wrong-value", rn, {"bytes": want}, str(v), repr(back[1:])[:100], (v,))
        # signed twins: n = unzigzag(v)
        n = refcodec.unzigzag(v)
        for wn, rn, bits in (("write_signed_varint", "read_signed_varint", 32), ("write_signed_varlong", "read_signed_varlong", 64)):
            if not -(2 ** (bits - 1)) <= n < 2 ** (bits - 1):
                continue
            res = wr(getattr(w, wn), n)
            if res[0] != "ok" or res[1] != want:
                bad(acc, "varint", f"{wn}/wrong-zigzag-bytes", wn, {"value": n}, want.hex(), repr(res[1:])[:100], (v,))
                continue
            back = rd(getattr(r, rn), want)
            if back[0] != "ok" or back[1] != n:
                bad(acc, "varint", f"{rn}/wrong-value", rn, {"bytes": want}, str(n), repr(back[1:])[:100], (v,))
    acc.add("distinct_nontrivial", hi - lo)
    return acc.result()


def c11_varint_boundaries(_):
    acc = Acc()
    # reuse the chunk judge on the power-of-two neighbourhoods
    for v in [x for x in pow2_neighbourhood(63) if x >= 0]:
        r = c11_varint_values((v, v + 1))
        for k, n in r["cov"].items():
            acc.add(k, n)
        for vv in r["violations"]:
            acc.report(vv)
    acc.sample({"function": "varint writers/readers", "domain": "all powers of two +-2 up to 2^63, unsigned and zig-zag"})
    return acc.result()


def c11_varint_inputs(arg):
    """all byte strings with the given first byte(s) as varint / varlong input"""
    prefix, total_len = arg
    acc = Acc()
    r = R()
    from kio.serial.errors import BufferUnderflow

    for tail in itertools.product(range(256), repeat=total_len - len(prefix)):
        data = bytes(prefix) + bytes(tail)
        for rn, mx in (("read_unsigned_varint", 5), ("read_unsigned_varlong", 10)):
            acc.add("evaluations")
            ref = ref_varint_read(data, mx)
            got = rd(getattr(r, rn), data)
            if ref[0] == "ok":
                ok = got[0] == "ok" and got[1] == ref[1] and got[2] == ref[2]
            elif ref[0] == "underflow":
                ok = got[0] == "exc" and isinstance(got[1], BufferUnderflow)
            else:
                ok = got[0] == "exc" and isinstance(got[1], ValueError)
            if not ok:
                bad(acc, "varint-input", f"{rn}/arbitrary-input/{ref[0]}", rn, {"bytes": data}, repr(ref), repr(got[1:])[:100], (len(data), data.hex()))
            else:
                acc.outcome(f"varint input {ref[0]}")
    acc.add("distinct_nontrivial", 256 ** (total_len - len(prefix)))
    return acc.result()


def c11_varint_long(_):
    """over-long forms: 5th/10th byte with continuation bit must raise; non-minimal forms accepted"""
    acc = Acc()
    r = R()
    cases = []
    for mx, rn in ((5, "read_unsigned_varint"), (10, "read_unsigned_varlong")):
        for fill in (0x80, 0xFF, 0x81):
            for last in (0x00, 0x01, 0x7F, 0x80, 0xFF):
                for n in range(1, mx + 2):
                    cases.append((rn, mx, bytes([fill] * (n - 1) + [last]) + b"\x00\x00"))
    from kio.serial.errors import BufferUnderflow

    for i, (rn, mx, data) in enumerate(cases):
        acc.add("evaluations")
        ref = ref_varint_read(data, mx)
        got = rd(getattr(r, rn), data)
        if ref[0] == "ok":
            ok = got[0] == "ok" and got[1] == ref[1] and got[2] == ref[2]
        elif ref[0] == "underflow":
            ok = got[0] == "exc" and isinstance(got[1], BufferUnderflow)
        else:
            ok = got[0] == "exc" and isinstance(got[1], ValueError)
        if not ok:
            bad(acc, "varint-input", f"{rn}/long-form/{ref[0]}", rn, {"bytes": data}, repr(ref), repr(got[1:])[:100], (i,))
        else:
            acc.outcome(f"long varint input {ref[0]}")
    acc.add("distinct_nontrivial", len(cases))
    return acc.result()


def c11_lengths(_):
    """strings / bytes / arrays in the four length-prefix forms with their null forms, at the boundaries"""
    acc = Acc()
    w, r = W(), R()
    from kio.serial.errors import OutOfBoundValue

    def check(name_w, name_r, value, want, order, reads_back=None):
        acc.add("evaluations")
        res = wr(getattr(w, name_w), value)
        if res[0] != "ok" or res[1] != want:
            bad(acc, "length-prefixed", f"{name_w}/wrong-bytes", name_w, {"value_len": None if value is None else len(value)},
                want.hex()[:80], (res[1].hex()[:80] if res[0] == "ok" else repr(res[1])[:100]), order)
            return
        back = rd(getattr(r, name_r), want + b"\x7f")
        exp = value if reads_back is None else reads_back
        if back[0] != "ok" or back[1] != exp or back[2] != len(want) or (exp is not None and type(back[1]) is not type(exp)):
            bad(acc, "length-prefixed", f"{name_r}/wrong-value", name_r, {"bytes": want[:40]}, repr(exp)[:80], repr(back[1:])[:100], order)
            return
        acc.outcome(f"{name_w}/{name_r} ok")

    HUGE = 2**21 + 4321  # beyond 1 MiB and 2 MiB, a multiple of neither
    clens = [0, 1, 126, 127, 128, 16382, 16383, 16384, 2**20 - 1, 2**20, 2**20 + 1, 2097150, 2097151, 2097152, HUGE]
    llens = [0, 1, 127, 128, 255, 256, 32766, 32767]
    n = 0
    for L in clens:
        n += 1
        s = "a" * L
        raw = s.encode()
        pre = refcodec.uvarint(L + 1)
        check("write_compact_string", "read_compact_string", s, pre + raw, (n, L))
        check("write_nullable_compact_string", "read_compact_string_nullable", s, pre + raw, (n, L))
        check("write_compact_string", "read_compact_string_as_bytes", raw, pre + raw, (n, L))
        check("write_nullable_compact_string", "read_compact_string_as_bytes_nullable", raw, pre + raw, (n, L))
    for s in ("é", "€", "\U0001f600", "é" * 63 + "a", "é" * 64, "\x00", "\U0001f600" * 4096):
        n += 1
        raw = s.encode()
        check("write_compact_string", "read_compact_string", s, refcodec.uvarint(len(raw) + 1) + raw, (n, len(raw)))
        if len(raw) <= 32767:
            check("write_legacy_string", "read_legacy_string", s, len(raw).to_bytes(2, "big") + raw, (n, len(raw)))
    check("write_nullable_compact_string", "read_compact_string_nullable", None, b"\x00", (n, -1))
    check("write_nullable_compact_string", "read_compact_string_as_bytes_nullable", None, b"\x00", (n, -1))
    for L in llens:
        n += 1
        s = "a" * L
        check("write_legacy_string", "read_legacy_string", s, L.to_bytes(2, "big") + s.encode(), (n, L))
        check("write_nullable_legacy_string", "read_nullable_legacy_string", s, L.to_bytes(2, "big") + s.encode(), (n, L))
    check("write_nullable_legacy_string", "read_nullable_legacy_string", None, b"\xff\xff", (n, -1))
    for L in llens + [32768, 65535, 65536, 2**20 - 1, 2**20, 2**20 + 1, HUGE, 9 * 2**20 + 37]:  # (the last: beyond 8 MiB, followed by another byte)
        n += 1
        b = b"\x00" * L
        check("write_legacy_bytes", "read_legacy_bytes", b, L.to_bytes(4, "big") + b, (n, L))
        check("write_nullable_legacy_bytes", "read_nullable_legacy_bytes", b, L.to_bytes(4, "big") + b, (n, L))
    check("write_nullable_legacy_bytes", "read_nullable_legacy_bytes", None, b"\xff\xff\xff\xff", (n, -1))
    # non-nullable readers reject the null form with the documented error
    from kio.serial.errors import UnexpectedNull

    for rn, data in (("read_compact_string", b"\x00"), ("read_compact_string_as_bytes", b"\x00"),
                     ("read_legacy_string", b"\xff\xff"), ("read_legacy_bytes", b"\xff\xff\xff\xff")):
        acc.add("evaluations")
        got = rd(getattr(r, rn), data)
        if got[0] != "exc" or not isinstance(got[1], UnexpectedNull):
            bad(acc, "length-prefixed", f"{rn}/null-form-not-rejected", rn, {"bytes": data}, "UnexpectedNull", repr(got[1:])[:100], (n,))
    # a negative legacy length other than -1 (null) is not the encoding of any value: must be rejected, and the
    # bytes that follow must not be swallowed as the value
    for rn, width in (("read_legacy_string", 2), ("read_nullable_legacy_string", 2), ("read_legacy_bytes", 4), ("read_nullable_legacy_bytes", 4)):
        for neg in (-2, -3, -128, -(2 ** (8 * width - 1))):
            acc.add("evaluations")
            n += 1
            data = neg.to_bytes(width, "big", signed=True) + b"next-field"
            got = rd(getattr(r, rn), data)
            if got[0] != "exc":
                bad(acc, "length-prefixed", f"{rn}/negative-length-accepted", rn, {"bytes": data}, "rejected", repr(got[1:])[:100], (n, neg))
            else:
                acc.outcome("negative length rejected")
    # a huge value cut short anywhere in its last mebibyte is an underflow, never a shorter value
    from kio.serial.errors import BufferUnderflow

    for rn, pre in (("read_compact_string_as_bytes", refcodec.uvarint(HUGE + 1)), ("read_legacy_bytes", HUGE.to_bytes(4, "big")),
                    ("read_compact_string", refcodec.uvarint(HUGE + 1)), ("read_nullable_legacy_bytes", HUGE.to_bytes(4, "big"))):
        for missing in (1, 2, 1000, 4321, 4322, 2**19, 2**20 - 1, 2**20, 2**20 + 1, 2**21):
            acc.add("evaluations")
            n += 1
            got = rd(getattr(r, rn), pre + b"a" * (HUGE - missing))
            if got[0] != "exc" or not isinstance(got[1], BufferUnderflow):
                bad(acc, "length-prefixed", f"{rn}/huge-value-cut-short-not-reported", rn, {"declared": HUGE, "missing": missing}, "BufferUnderflow", repr(got[1:])[:100], (n, missing))
            else:
                acc.outcome("huge value cut short: underflow")
    for rn in ("read_compact_string", "read_compact_string_nullable", "read_compact_string_as_bytes", "read_compact_string_as_bytes_nullable"):
        # a compact length larger than what follows is an underflow, never a shorter value
        acc.add("evaluations")
        got = rd(getattr(r, rn), b"\x0a" + b"short")
        if got[0] != "exc":
            bad(acc, "length-prefixed", f"{rn}/short-payload-accepted", rn, {"bytes": b"\x0ashort"}, "BufferUnderflow", repr(got[1:])[:100], (n,))
    # length-limited writers: out of domain raises and writes nothing
    for name_w, value in (("write_legacy_string", "a" * 32768), ("write_nullable_legacy_string", "a" * 32768),
                          ("write_legacy_string", "é" * 16384), ("write_nullable_legacy_string", "a" * 70000)):
        acc.add("evaluations")
        acc.add("out_of_domain_cases")
        res = wr(getattr(w, name_w), value)
        if res[0] == "ok":
            bad(acc, "length-prefixed", f"{name_w}/over-long-value-written", name_w, {"len": len(value.encode())}, "raises", res[1][:8].hex(), (n,))
        elif res[2]:
            bad(acc, "length-prefixed", f"{name_w}/over-long-partial-write", name_w, {"len": len(value.encode())}, "writes nothing", res[2][:8].hex(), (n,))
        else:
            acc.outcome("over-long rejected")
    # None to a non-nullable writer raises and writes nothing
    for name_w in ("write_compact_string", "write_legacy_string", "write_legacy_bytes"):
        acc.add("evaluations")
        res = wr(getattr(w, name_w), None)
        if res[0] == "ok" or res[2]:
            bad(acc, "length-prefixed", f"{name_w}/none-written", name_w, {"value": None}, "raises, writes nothing", repr(res[1:])[:100], (n,))
    # arrays
    for flex, wa, ra in ((True, "compact_array_writer", "compact_array_reader"), (False, "legacy_array_writer", "legacy_array_reader")):
        aw = getattr(w, wa)(w.write_int8)
        ar = getattr(r, ra)(r.read_int8)
        for L in (0, 1, 2, 126, 127, 128, 16383, 16384):
            n += 1
            acc.add("evaluations")
            items = tuple((i % 200) - 100 for i in range(L))
            want = (refcodec.uvarint(L + 1) if flex else L.to_bytes(4, "big")) + bytes((x & 0xFF) for x in items)
            res = wr(aw, items)
            back = rd(ar, want + b"\x55")
            if res[0] != "ok" or res[1] != want:
                bad(acc, "arrays", f"{wa}/wrong-bytes", wa, {"len": L}, want.hex()[:60], repr(res[1:])[:100], (n, L))
            elif back[0] != "ok" or back[1] != items or type(back[1]) is not tuple or back[2] != len(want):
                bad(acc, "arrays", f"{ra}/wrong-value", ra, {"len": L}, repr(items)[:60], repr(back[1:])[:100], (n, L))
            else:
                acc.outcome("array ok")
        acc.add("evaluations")
        null = b"\x00" if flex else b"\xff\xff\xff\xff"
        res = wr(aw, None)
        back = rd(ar, null)
        if res[0] != "ok" or res[1] != null or back[0] != "ok" or back[1] is not None:
            bad(acc, "arrays", f"{wa}/null-form", wa, {"value": None}, null.hex(), repr(res[1:])[:100] + repr(back[1:])[:60], (n,))
    for L in (0, 1, 127, 128, 16383):
        acc.add("evaluations")
        for name_w, name_r, want in (("write_compact_array_length", "read_compact_array_length", refcodec.uvarint(L + 1)),
                                     ("write_legacy_array_length", "read_legacy_array_length", L.to_bytes(4, "big"))):
            res = wr(getattr(w, name_w), L)
            back = rd(getattr(r, name_r), want)
            if res[0] != "ok" or res[1] != want or back[0] != "ok" or back[1] != L:
                bad(acc, "arrays", f"{name_w}/wrong", name_w, {"len": L}, want.hex(), repr(res[1:])[:80], (n, L))
    acc.add("evaluations")
    res = wr(w.write_empty_tagged_fields)
    if res[0] != "ok" or res[1] != b"\x00":
        bad(acc, "arrays", "write_empty_tagged_fields/wrong", "write_empty_tagged_fields", {}, "00", repr(res[1:]), (n,))
    # tagged field framing
    for tag, payload in ((0, b""), (1, b"\x01"), (127, b"x" * 127), (128, b"y" * 128), (2**31 - 1, b"z" * 3)):
        acc.add("evaluations")
        res = wr(w.write_tagged_field, tag, lambda b, v: b.write(v), payload)
        want = refcodec.uvarint(tag) + refcodec.uvarint(len(payload)) + payload
        if res[0] != "ok" or res[1] != want:
            bad(acc, "arrays", "write_tagged_field/wrong-framing", "write_tagged_field", {"tag": tag, "len": len(payload)}, want.hex()[:60], repr(res[1:])[:100], (n, tag))
    acc.add("distinct_nontrivial", n)
    acc.sample({"function": "length-prefixed writers/readers", "domain": f"lengths {clens} (compact), {llens} (legacy), null forms, over-long values"})
    return acc.result()


def c11_misc(_):
    acc = Acc()
    w, r = W(), R()
    import uuid

    from kio.schema.errors import ErrorCode

    n = 0
    # booleans
    for v, want in ((False, b"\x00"), (True, b"\x01")):
        acc.add("evaluations")
        res = wr(w.write_boolean, v)
        back = rd(r.read_boolean, want)
        if res[0] != "ok" or res[1] != want or back[0] != "ok" or back[1] is not v:
            bad(acc, "misc", "boolean/wrong", "write_boolean", {"value": v}, want.hex(), repr(res[1:]) + repr(back[1:]), (n,))
    for b in range(256):
        acc.add("evaluations")
        back = rd(r.read_boolean, bytes([b]))
        if back[0] != "ok" or back[1] is not (b != 0):
            bad(acc, "misc", "read_boolean/nonzero-is-true", "read_boolean", {"byte": b}, str(b != 0), repr(back[1:]), (b,))
    # doubles
    for hx in ("0000000000000000", "8000000000000000", "3ff8000000000000", "7fefffffffffffff", "ffefffffffffffff",
               "0000000000000001", "7ff0000000000000", "fff0000000000000", "7ff8000000000000", "7ff8000000000001",
               "fff0000000000001", "3ff0000000000001", "4340000000000001"):
        acc.add("evaluations")
        n += 1
        raw = bytes.fromhex(hx)
        v = struct.unpack(">d", raw)[0]
        back = rd(r.read_float64, raw)
        res = wr(w.write_float64, v)
        if back[0] != "ok" or struct.pack(">d", back[1]) != raw or res[0] != "ok" or res[1] != raw:
            bad(acc, "misc", "float64/not-ieee754-identity", "read_float64", {"bytes": raw}, hx, repr(back[1:]) + repr(res[1:]), (n,))
        else:
            acc.outcome("float64 ok")
    # uuid
    for raw in (bytes(16), (1).to_bytes(16, "big"), b"\xff" * 16, bytes(range(16))):
        acc.add("evaluations")
        n += 1
        exp = None if raw == bytes(16) else uuid.UUID(bytes=raw)
        back = rd(r.read_uuid, raw + b"\x01")
        res = wr(w.write_uuid, exp)
        if back[0] != "ok" or back[1] != exp or back[2] != 16 or res[0] != "ok" or res[1] != raw:
            bad(acc, "misc", "uuid/wrong", "read_uuid", {"bytes": raw}, repr(exp), repr(back[1:]) + repr(res[1:]), (n,))
    # error codes: all int16 as input
    known = {int(c.value): c for c in ErrorCode}
    for v in range(-(2**15), 2**15):
        acc.add("evaluations")
        raw = v.to_bytes(2, "big", signed=True)
        back = rd(r.read_error_code, raw)
        if v in known:
            res = wr(w.write_error_code, known[v])
            if back[0] != "ok" or back[1] is not known[v] or res[0] != "ok" or res[1] != raw:
                bad(acc, "misc", "error_code/known-code-wrong", "read_error_code", {"code": v}, repr(known[v]), repr(back[1:]) + repr(res[1:]), (v,))
        elif back[0] != "exc" or not isinstance(back[1], ValueError):
            bad(acc, "misc", "error_code/unknown-code-not-rejected", "read_error_code", {"code": v}, "ValueError", repr(back[1:])[:80], (v,))
    n += len(known)
    # durations and timestamps, integer oracle
    MS = datetime.timedelta(milliseconds=1)
    for kind, width, vals in (("timedelta_i32", 4, [0, 1, -1, 1001, 2**31 - 1, -(2**31), 86_400_000]),
                              ("timedelta_i64", 8, [0, 1, -1, 2**31, 2**53 - 1, 2**53, 2**53 + 1, -(2**53) - 1, 2**62 // 1000,
                                                    bridge.TD_MIN_MS, bridge.TD_MAX_MS - 86_400_000, 7 * 10**16])):
        for v in vals:
            acc.add("evaluations")
            n += 1
            raw = v.to_bytes(width, "big", signed=True)
            td = datetime.timedelta(milliseconds=v)
            res = wr(getattr(w, f"write_{kind}"), td)
            back = rd(getattr(r, f"read_{kind}"), raw)
            if res[0] != "ok" or res[1] != raw:
                bad(acc, "time", f"write_{kind}/wrong-milliseconds", f"write_{kind}", {"ms": v}, raw.hex(), repr(res[1:])[:80], (n,))
            elif back[0] != "ok" or back[1] != td:
                bad(acc, "time", f"read_{kind}/wrong-value", f"read_{kind}", {"ms": v}, repr(td), repr(back[1:])[:80], (n,))
            else:
                acc.outcome("duration ok")
    for v in (0, 1, 999, 1000, 1001, 2**31 * 1000, 2**31 * 1000 + 2, 1073741824007, 1700000000123, 4102444800001, bridge.MAX_DT_MS):
        acc.add("evaluations")
        n += 1
        raw = v.to_bytes(8, "big", signed=True)
        dt = bridge.EPOCH + datetime.timedelta(milliseconds=v)
        for wn, rn in (("write_datetime_i64", "read_datetime_i64"), ("write_nullable_datetime_i64", "read_nullable_datetime_i64")):
            res = wr(getattr(w, wn), dt)
            back = rd(getattr(r, rn), raw)
            if res[0] != "ok" or res[1] != raw:
                bad(acc, "time", f"{wn}/wrong-milliseconds", wn, {"ms": v}, raw.hex(), repr(res[1:])[:80], (n,))
            elif back[0] != "ok" or back[1] != dt or back[1].utcoffset() is None:
                bad(acc, "time", f"{rn}/wrong-value", rn, {"ms": v}, repr(dt), repr(back[1:])[:80], (n,))
            else:
                acc.outcome("timestamp ok")
        back = rd(r.tz_aware_from_i64, raw) if False else None
    acc.add("evaluations")
    res = wr(w.write_nullable_datetime_i64, None)
    back = rd(r.read_nullable_datetime_i64, b"\xff" * 8)
    if res[0] != "ok" or res[1] != b"\xff" * 8 or back[0] != "ok" or back[1] is not None:
        bad(acc, "time", "nullable_datetime/null-form", "write_nullable_datetime_i64", {"value": None}, "ff" * 8, repr(res[1:]) + repr(back[1:]), (n,))
    # read_exact
    for data, k in ((b"abc", 3), (b"abc", 0), (b"", 0)):
        acc.add("evaluations")
        b = io.BytesIO(data)
        if r.read_exact(b, k) != data[:k]:
            bad(acc, "misc", "read_exact/wrong", "read_exact", {"n": k}, repr(data[:k]), "differs", (n,))
    acc.add("distinct_nontrivial", n + 65536)
    acc.sample({"function": "boolean/float64/uuid/error_code/durations/timestamps", "domain": "all 256 boolean bytes, all 2^16 error-code inputs, IEEE-754 classes, duration and timestamp alphabets"})
    return acc.result()


def run_c11(tier):
    run = Run("C11", tier, "exploration")
    # the function inventory is part of the space: compare with the pinned name list
    for modname, mod in (("readers", R()), ("writers", W())):
        names = [k for k, v in vars(mod).items() if isinstance(v, types.FunctionType) and v.__module__ == mod.__name__ and not k.startswith("_")]
        missing = sorted(set(PINNED_NAMES[modname]) - set(names))
        extra = sorted(set(names) - set(PINNED_NAMES[modname]))
        run.notes[f"{modname}_public_functions"] = len(names)
        if missing:
            run.report(violation("C11", "inventory", f"C11/public-function-missing/{modname}", f"kio.serial.{modname}", {"missing": missing}, "the 66 pinned public functions exist", str(missing), 0))
        if extra:
            run.notes[f"{modname}_functions_not_covered"] = extra
    tasks = [(c11_fixed, k) for k in FIXED]
    vmax = 2**21 if tier == "thorough" else 2**17
    step = vmax // 32
    tasks += [(c11_varint_values, (a, a + step)) for a in range(0, vmax, step)]
    tasks += [(c11_varint_boundaries, None), (c11_varint_long, None), (c11_lengths, None), (c11_misc, None)]
    if tier == "thorough":
        tasks += [(c11_varint_inputs, ((b,), 3)) for b in range(256)]
        tasks += [(c11_varint_inputs, ((), 2)), (c11_varint_inputs, ((), 1)), (c11_varint_inputs, ((), 0))]
    else:
        tasks += [(c11_varint_inputs, ((), 2)), (c11_varint_inputs, ((), 1)), (c11_varint_inputs, ((), 0))]
    for res in pmap(_dispatch, tasks):
        run.merge(res)
    c = run.cov
    c["rule"] = (
        "each public reader/writer of kio.serial (66, compared with a pinned name list) over: all values of the 8/16-bit "
        "codecs and all 8/16-bit inputs; powers of two +-2 up to the type limit for 32/64-bit codecs; all unsigned varints "
        f"and zig-zag twins below 2^{17 if tier == 'quick' else 21} and all power-of-two neighbourhoods up to 2^63; all byte "
        f"strings of length <= {2 if tier == 'quick' else 3} as varint and varlong input plus systematic over-long forms; "
        "strings/bytes/arrays at the length boundaries in all four length-prefix forms with null; all 2^16 int16 as error "
        "code input; IEEE-754 classes; duration and timestamp alphabets; out-of-domain values for every fixed-width and "
        "length-limited writer (must raise and write nothing). Oracle: independent primitive codecs (int.to_bytes, explicit "
        "varint loops)")
    c["exhaustive"] = True
    run.assumptions += ["varint writers with out-of-domain arguments are not covered by the statement and are not judged"]
    return run.finish()


def _dispatch(t):
    fn, arg = t
    ALIASED.clear()
    _PREV.clear()
    res = fn(arg)
    for n, (name, ex) in enumerate(sorted(ALIASED.items())):
        v = violation("C11", "aliasing", f"C11/{name}/written-object-changes-when-a-later-call-writes", name, ex,
                      "the bytes handed to the sink stay what they were", f"{ex['written_then']} became {ex['object_now']}", (10**9, n))
        res["violations"].append(v)
        res["sig_counts"][v["signature"]] = 1
    return res


# ---------------------------------------------------------------------------------------
# C12
# ---------------------------------------------------------------------------------------
def c12_types():
    from kio.static import primitive as p

    ints = {"i8": (-(2**7), 2**7 - 1), "i16": (-(2**15), 2**15 - 1), "i32": (-(2**31), 2**31 - 1), "i64": (-(2**63), 2**63 - 1),
            "u8": (0, 2**8 - 1), "u16": (0, 2**16 - 1), "u32": (0, 2**32 - 1), "u64": (0, 2**64 - 1),
            "uvarint": (0, 2**35 - 1), "uvarlong": (0, 2**70 - 1), "svarint": (-(2**34), 2**34 - 1), "svarlong": (-(2**69), 2**69 - 1)}
    return p, ints


def is_aware_ms(v):
    return (isinstance(v, datetime.datetime) and v.tzinfo is not None and v.tzinfo.utcoffset(v) is not None
            and v.microsecond % 1000 == 0 and (v - bridge.EPOCH) >= datetime.timedelta(0))


def c12_run(order_name):
    """One pass over all (type, value) pairs in the given order.  Runs in a forked child so that the
    two orders do not share Phantom state."""
    acc = Acc()
    p, ints = c12_types()
    MS, US = datetime.timedelta(milliseconds=1), datetime.timedelta(microseconds=1)
    int_vals = pow2_neighbourhood(71)
    small = list(range(-(2**17), 2**17 + 1))
    i32min, i32max = datetime.timedelta(milliseconds=-(2**31)), datetime.timedelta(milliseconds=2**31 - 1)
    i64min, i64max = datetime.timedelta.min, datetime.timedelta.max - datetime.timedelta(days=1)
    tds = []
    for lim in (i32min, i32max, i64min, i64max, datetime.timedelta(0)):
        for d in (-MS, -US, datetime.timedelta(0), US, MS, 400 * US, -400 * US):
            try:
                tds.append(lim + d)
            except OverflowError:
                pass
    tds += [datetime.timedelta.max, datetime.timedelta(milliseconds=2**53 + 1), datetime.timedelta(microseconds=1500)]
    tz2 = datetime.timezone(datetime.timedelta(hours=2))
    tzm = datetime.timezone(datetime.timedelta(hours=-11, minutes=-30))
    E = bridge.EPOCH
    dts = [E, E + US, E - US, E + MS, E - MS, E + 999 * US, E + 1000 * US, E + 1001 * US, E + datetime.timedelta(seconds=1, milliseconds=1),
           bridge.ms_to_datetime(bridge.MAX_DT_MS), bridge.ms_to_datetime(bridge.MAX_DT_MS) + 999 * US,
           datetime.datetime(1970, 1, 1), datetime.datetime(2024, 1, 1, 12, 0, 0, 123000),
           datetime.datetime(2024, 1, 1, 12, 0, 0, 123000, tzinfo=tz2), datetime.datetime(2024, 1, 1, 12, 0, 0, 123456, tzinfo=tz2),
           datetime.datetime(1970, 1, 1, 1, 59, 59, 999000, tzinfo=tz2), datetime.datetime(1970, 1, 1, 2, 0, 0, 0, tzinfo=tz2),
           datetime.datetime(1969, 12, 31, 12, 30, 0, 1000, tzinfo=tzm), datetime.datetime(1969, 12, 31, 12, 29, 59, 999000, tzinfo=tzm),
           # local dates at the ends of the calendar whose UTC instant lies outside datetime.min..max
           datetime.datetime(1, 1, 1, 0, 0, tzinfo=tz2), datetime.datetime(1, 1, 1, 0, 0, 0, 500, tzinfo=tzm),
           datetime.datetime(9999, 12, 31, 23, 0, 0, 5000, tzinfo=tzm), datetime.datetime(9999, 12, 31, 23, 59, 59, 999000, tzinfo=tz2)]
    floats = [0.0, -0.0, 1.5, -1.5, 5e-324, 1.7976931348623157e308, -1.7976931348623157e308, float("inf"), float("-inf"), float("nan"), 2.0, 127.0, 128.0, 1e300]
    wrong = ["0", "", None, b"\x00", (0,), [0], 1.0, 0.0, 5.0, 127.0, -129.0, float("nan"), True, False, datetime.timedelta(0), E]

    def int_member(lo, hi):
        return lambda v: isinstance(v, int) and lo <= v <= hi

    types_ = []
    for name, (lo, hi) in ints.items():
        vals = (small if name in ("i8", "i16", "u8", "u16") else []) + int_vals
        vals = list(vals) + [float(x) for x in (lo, hi, 0, 5, 7) if abs(x) < 2**53] + wrong
        types_.append((name, getattr(p, name), int_member(lo, hi), vals))
    types_.append(("f64", p.f64, lambda v: isinstance(v, float) and math.isfinite(v), floats + [0, 1, 2, 5, 2**53, True, "1.0", None, datetime.timedelta(0)]))
    types_.append(("i32Timedelta", p.i32Timedelta, lambda v: isinstance(v, datetime.timedelta) and i32min <= v <= i32max, tds + [0, 1.0, None, "0", E]))
    types_.append(("i64Timedelta", p.i64Timedelta, lambda v: isinstance(v, datetime.timedelta) and i64min <= v <= i64max, tds + [0, 1.0, None, "0", E]))
    types_.append(("TZAware", p.TZAware, is_aware_ms, dts + [0, 1.0, None, "1970", datetime.date(1970, 1, 1), datetime.timedelta(0)]))
    if hasattr(p, "TZAwareMicros"):
        # the record classes' timestamp type (same domain without the whole-millisecond condition); not named by the
        # property's list, checked against its own documentation because C17 / C18 build on it
        types_.append(("TZAwareMicros", p.TZAwareMicros,
                       lambda v: isinstance(v, datetime.datetime) and v.tzinfo is not None and v.tzinfo.utcoffset(v) is not None and (v - bridge.EPOCH) >= datetime.timedelta(0),
                       dts + [0, 1.0, None, "1970", datetime.date(1970, 1, 1), datetime.timedelta(0)]))
    if order_name == "reversed":
        types_ = [(n, t, m, list(reversed(v))) for n, t, m, v in reversed(types_)]
    n = 0
    for name, T, member, vals in types_:
        for v in vals:
            n += 1
            acc.add("evaluations")
            exp = bool(member(v))
            case = {"type": name, "value": repr(v)[:80], "value_type": type(v).__name__, "order": order_name}
            try:
                got = isinstance(v, T)
            except Exception as e:  # noqa: BLE001
                got = e
            if got is not exp:
                acc.report(violation("C12", "membership", f"C12/isinstance-differs-from-documented-domain/{name}/{'accepts' if got else 'rejects'}-{type(v).__name__}",
                                     name, case, str(exp), repr(got)[:80], (n,)))
                continue
            try:
                out = T(v)
                res = ("ok", out)
            except TypeError as e:
                res = ("TypeError", e)
            except Exception as e:  # noqa: BLE001
                res = (exc_name(e), e)
            if exp and not (res[0] == "ok" and res[1] is v):
                acc.report(violation("C12", "constructor", f"C12/constructor-does-not-return-member-unchanged/{name}", name, case, "the value itself", repr(res)[:100], (n,)))
                continue
            if not exp and res[0] != "TypeError":
                acc.report(violation("C12", "constructor", f"C12/constructor-does-not-reject-with-TypeError/{name}/{type(v).__name__}", name, case, "TypeError", repr(res)[:100], (n,)))
                continue
            acc.outcome(f"{name}: {'member' if exp else 'non-member'}")
            if exp:
                c12_writer(acc, name, v, case, n)
    # nesting by range, exhaustively over the integer values used above
    chain = [["i8", "i16", "i32", "i64"], ["u8", "u16", "u32", "u64"]]
    for ch in chain:
        for a, b in zip(ch, ch[1:]):
            A, B = getattr(p, a), getattr(p, b)
            for v in small + int_vals:
                acc.add("evaluations")
                if isinstance(v, A) and not isinstance(v, B):
                    acc.report(violation("C12", "nesting", f"C12/nesting-broken/{a}-in-{b}", a, {"value": v}, f"{a} member is a {b} member", "not", (v,)))
            acc.add("evaluations")
            if not issubclass(A, B):
                acc.report(violation("C12", "nesting", f"C12/not-a-subclass/{a}-of-{b}", a, {}, "subclass", "not", (0,)))
    acc.add("distinct_nontrivial", n)
    acc.sample({"order": order_name, "types": [t[0] for t in types_], "values_per_type": {t[0]: len(t[3]) for t in types_}})
    return acc.result()


def c12_writer(acc, name, v, case, n):
    """every member of a fixed-width integer, float, duration or timestamp type is accepted by the
    corresponding writer and reads back equal (durations after rounding to whole milliseconds)"""
    w, r = W(), R()
    pair = {"i8": "int8", "i16": "int16", "i32": "int32", "i64": "int64", "u8": "uint8", "u16": "uint16", "u32": "uint32",
            "u64": "uint64", "f64": "float64", "i32Timedelta": "timedelta_i32", "i64Timedelta": "timedelta_i64", "TZAware": "datetime_i64"}.get(name)
    if pair is None:
        return
    acc.add("evaluations")
    res = wr(getattr(w, f"write_{pair}"), v)
    if res[0] != "ok":
        acc.report(violation("C12", "writer", f"C12/member-rejected-by-writer/{name}", name, case, "accepted", repr(res[1])[:100], (n,)))
        return
    back = rd(getattr(r, f"read_{pair}"), res[1])
    if name in ("i32Timedelta", "i64Timedelta"):
        MS = datetime.timedelta(milliseconds=1)
        q, rem = divmod(v, MS)
        exp = [q * MS] if not rem else [q * MS, (q + 1) * MS]
        ok = back[0] == "ok" and back[1] in exp and abs(back[1] - v) <= MS / 2
    elif name == "f64":
        ok = back[0] == "ok" and struct.pack(">d", back[1]) == struct.pack(">d", v)
    else:
        ok = back[0] == "ok" and back[1] == v
    if not ok:
        sig = f"C12/member-does-not-read-back-equal/{name}"
        if name == "TZAware" and (v - bridge.EPOCH) // datetime.timedelta(milliseconds=1) > bridge.MAX_DT_MS:
            sig = "C12/member-beyond-utc-year-9999-does-not-read-back/TZAware"
        acc.report(violation("C12", "writer", sig, name, case, repr(v)[:80], repr(back[1:])[:100], (n,)))


def run_c12(tier):
    run = Run("C12", tier, "exploration")
    for res in pmap(c12_run, ["natural", "reversed"], procs=2):
        run.merge(res)
    c = run.cov
    c["rule"] = ("for each of the 16 primitive types (i8..i64, u8..u64, uvarint, uvarlong, svarint, svarlong, f64, i32Timedelta, "
                 "i64Timedelta, TZAware): all integers within +-2 of every power of two up to 2^71 (both signs), every integer in "
                 "[-2^17, 2^17] for the 8/16-bit types, float twins of integers, float classes (finite, +-inf, nan, -0.0), durations "
                 "at the limits +-1us/+-1ms and sub-ms offsets, datetimes at the epoch +-1us/1ms, last representable instant, naive, "
                 "non-UTC offsets, wrong Python types; oracle: independent membership predicate per type; constructor identity / "
                 "TypeError; nesting by exhaustive implication; member accepted by the writer and read back equal. The whole pass is "
                 "run in two orders (natural and reversed) in separate processes so that order-dependent membership is exposed")
    c["exhaustive"] = True
    run.assumptions += ["documented ranges of the varint types are those stated in kio/static/primitive.py at the baseline (2^35, 2^70, 2^34, 2^69)",
                        "bool is an int in Python and is treated as the integer it equals"]
    return run.finish()


def replay(prop, path):
    print(f"replay of {prop} cases re-runs the whole sweep (exhaustive, seconds)")
    return run_c11("quick") if prop == "C11" else run_c12("quick")
