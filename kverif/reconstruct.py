"""Inverse generator: from a described tree (kverif.describe) synthesise one message definition per
(API, type) family.  Used to check that the current tree is still *regular* (every family expressible
as one definition) and still equals the committed pins/definitions-3.9.0."""

from __future__ import annotations

import collections
import json
import re
import sys

RAW = {"timedelta_i32": "int32", "timedelta_i64": "int64", "datetime_i64": "int64", "error_code": "int16"}


class Irregular(Exception):
    pass


def _codegen():
    from .core import REPO

    if REPO not in sys.path:
        sys.path.insert(0, REPO)
    from codegen.case import to_snake_case
    from codegen.parser import datetime_names, error_code_names, timedelta_names

    return to_snake_case, timedelta_names, datetime_names, error_code_names


def rng(vs, allv):
    vs = sorted(vs)
    if vs != list(range(vs[0], vs[-1] + 1)):
        raise Irregular(f"non-contiguous versions {vs}")
    if vs[-1] == max(allv):
        return f"{vs[0]}+"
    return f"{vs[0]}-{vs[-1]}" if vs[0] != vs[-1] else f"{vs[0]}"


def camel(s):
    return "".join(p[:1].upper() + p[1:] for p in s.rstrip("_").split("_"))


def parse_type(t):
    opt = arr = iopt = False
    if (t.endswith(" | None") and not t.startswith("tuple[")) or (t.startswith("tuple[") and t.endswith("...] | None")):
        opt = True
        t = t[: -len(" | None")]
    if t.startswith("tuple["):
        arr = True
        t = t[len("tuple[") : -len(", ...]")]
        if t.endswith(" | None"):
            iopt = True
            t = t[: -len(" | None")]
    return t, opt, arr, iopt


def json_default(d):
    k = d[0]
    if k == "MISSING":
        return None
    if k == "None":
        return "null"
    if k == "int":
        return str(d[1])
    if k == "bool":
        return "true" if d[1] else "false"
    if k in ("str", "float"):
        return d[1]
    if k == "enum":
        if d[2] != "none":
            raise Irregular(f"enum default {d}")
        return "0"
    if k == "td_us":
        if d[1] % 1000:
            raise Irregular("sub-ms default")
        return str(d[1] // 1000)
    if k in ("tuple", "dc"):
        return None
    raise Irregular(f"default {d}")


def reconstruct(D):
    """-> {filename: definition dict}; raises Irregular with the offending family/field."""
    to_snake_case, timedelta_names, datetime_names, error_code_names = _codegen()

    def json_name(snake, kt):
        cands = [camel(snake)]
        if kt in ("timedelta_i32", "timedelta_i64"):
            cands = [n for n in timedelta_names if to_snake_case(n.removesuffix("Ms")) == snake]
        elif kt == "datetime_i64":
            cands = [n for n in datetime_names if to_snake_case(n.removesuffix("Ms")) == snake]
        elif kt == "error_code":
            cands = [n for n in error_code_names if to_snake_case(n) == snake]
        for c in sorted(cands):
            chk = c.removesuffix("Ms") if kt in ("timedelta_i32", "timedelta_i64", "datetime_i64") else c
            if to_snake_case(chk) == snake:
                return c
        raise Irregular(f"no JSON name for field {snake} ({kt})")

    def build_fields(cname, vers_classes, allv):
        order = []
        info = collections.defaultdict(dict)
        for v in sorted(vers_classes):
            prev = None
            if cname not in vers_classes[v]:
                raise Irregular(f"class {cname} missing in version {v}")
            for f in vers_classes[v][cname]["fields"]:
                if f["name"] not in order:
                    idx = order.index(prev) + 1 if prev in order else 0
                    order.insert(idx, f["name"])
                info[f["name"]][v] = f
                prev = f["name"]
        res = []
        for name in order:
            fv = info[name]
            vs = sorted(fv)
            f0 = fv[vs[0]]
            t, _, arr, iopt = parse_type(f0["type"])
            kt = f0["meta"].get("kafka_type")
            j = {}
            optv = [v for v in vs if parse_type(fv[v]["type"])[1]]
            tagv = [v for v in vs if "tag" in fv[v]["meta"]]
            for what, key in (("default", lambda x: json.dumps(x["default"])), ("kafka type", lambda x: x["meta"].get("kafka_type")),
                              ("tag", lambda x: x["meta"].get("tag")), ("inner type", lambda x: parse_type(x["type"])[0]),
                              ("array-ness", lambda x: parse_type(x["type"])[2])):
                vals = {key(fv[v]) for v in (tagv if what == "tag" else vs)}
                if len(vals) > 1:
                    raise Irregular(f"{cname}.{name}: {what} varies between versions: {sorted(map(str, vals))}")
            if kt is None:
                inner = t.lstrip("@")
                j["name"] = camel(name)
                if to_snake_case(j["name"]) != name:
                    raise Irregular(f"{cname}.{name}: struct field name not invertible")
                j["type"] = ("[]" if arr else "") + inner
                j["fields"] = build_fields(inner, {v: vers_classes[v] for v in vs}, allv)
                if not arr and f0["default"][0] == "None":
                    j["default"] = "null"
            else:
                j["name"] = json_name(name, kt)
                j["type"] = ("[]" if arr else "") + RAW.get(kt, kt)
                m = re.match(r"types\.(\w+)\(", t)
                if m:
                    j["entityType"] = m.group(1)[0].lower() + m.group(1)[1:]
                if not arr:
                    d = json_default(f0["default"])
                    if d == "null" and kt == "datetime_i64":
                        d = "-1"
                    if tagv and f0["default"][0] == "None":
                        d = None
                        j["ignorable"] = True
                    if d is not None:
                        j["default"] = d
            j["versions"] = rng(vs, allv)
            if optv and kt not in ("uuid",) and not (kt == "datetime_i64" and j.get("default") == "-1") and not j.get("ignorable"):
                j["nullableVersions"] = rng(optv, allv)
            if tagv:
                j["tag"] = fv[tagv[0]]["meta"]["tag"]
                j["taggedVersions"] = rng(tagv, allv)
                if "default" not in j and f0["default"][0] not in ("MISSING",) and not arr and kt is not None:
                    j["ignorable"] = True
            res.append(j)
        return res

    fam = collections.defaultdict(dict)
    for modname, m in D["modules"].items():
        _, _, api, v, typ = modname.split(".")
        fam[(api, typ)][int(v[1:])] = {c["name"]: c for c in m["classes"]}
    out = {}
    for (api, typ), vers in sorted(fam.items()):
        try:
            allv = sorted(vers)
            top = [c for c in vers[allv[-1]].values() if c["cv"].get("__type__") != "nested"]
            if len(top) != 1:
                raise Irregular("not exactly one top-level class")
            top = top[0]
            flex = [v for v in allv if vers[v][top["name"]]["cv"]["__flexible__"]]
            if flex and flex != list(range(flex[0], allv[-1] + 1)):
                raise Irregular(f"flexible versions {flex} are not a suffix")
            if allv != list(range(allv[0], allv[-1] + 1)):
                raise Irregular(f"versions {allv} not contiguous")
            j = {"type": typ, "name": top["name"], "validVersions": f"{allv[0]}-{allv[-1]}",
                 "flexibleVersions": (f"{flex[0]}+" if flex else "none"), "fields": build_fields(top["name"], vers, allv)}
            if "__api_key__" in top["cv"]:
                keys = {vers[v][top["name"]]["cv"].get("__api_key__") for v in allv}
                if len(keys) != 1:
                    raise Irregular(f"api key varies: {keys}")
                j["apiKey"] = top["cv"]["__api_key__"]
            out[f"{top['name']}.json"] = j
        except Irregular as e:
            raise Irregular(f"{api}/{typ}: {e}") from None
        except KeyError as e:
            raise Irregular(f"{api}/{typ}: missing {e}") from None
    return out


def error_codes_text(D):
    return "".join(f"{e[1]} {e[0].upper()} {e[2]} {(e[3] if len(e) > 3 and e[3] else 'msg')}\n" for e in D["errors"])
