"""E7 - schedule explorer: real threading.Threads under a one-baton cooperative scheduler.  Every
`line` event (optionally every `opcode` event in selected frames) in the traced kio source files is
a scheduling point.  Exploration is iterative context bounding (stateless DFS): default = keep
running the current thread; an alternative = switch to another enabled thread at a recorded point
(cost 1 preemption); when a thread ends the lowest-numbered unfinished thread continues (free)."""

from __future__ import annotations

import sys
import threading

from .core import HarnessError

WATCHDOG_S = 60.0


class Execution:
    __slots__ = ("start", "switches", "npoints", "running_at", "others_at", "results", "per_thread_points")

    def __init__(self):
        self.running_at = []  # thread running at each global point
        self.others_at = []  # tuple of other enabled threads at each global point
        self.results = None
        self.npoints = 0
        self.per_thread_points = None


class Scheduler:
    def __init__(self, bodies, traced_files, opcode_funcs=(), start=0, switches=()):
        self.bodies = bodies
        self.n = len(bodies)
        self.traced = traced_files
        self.opcode_funcs = frozenset(opcode_funcs)
        self.start = start
        self.switch_at = dict(switches)  # global point index -> target thread
        self.sems = [threading.Semaphore(0) for _ in bodies]
        self.done = [False] * self.n
        self.results = [None] * self.n
        self.counter = 0
        self.ex = Execution()
        self.ex.start, self.ex.switches = start, tuple(switches)
        self.ppt = [0] * self.n
        self.all_done = threading.Event()
        self.error = None

    # -- tracing -----------------------------------------------------------------------
    def _make_tracer(self, tid):
        traced = self.traced
        opf = self.opcode_funcs

        def local(frame, event, arg):
            if event == "line" or event == "opcode":
                self._point(tid)
            return local

        def glob(frame, event, arg):
            if event == "call":
                code = frame.f_code
                if code.co_filename in traced:
                    if code.co_name in opf:
                        frame.f_trace_opcodes = True
                        frame.f_trace_lines = False
                    return local
            return None

        return glob

    def _point(self, tid):
        idx = self.counter
        self.counter = idx + 1
        self.ppt[tid] += 1
        others = tuple(t for t in range(self.n) if t != tid and not self.done[t])
        self.ex.running_at.append(tid)
        self.ex.others_at.append(others)
        target = self.switch_at.get(idx)
        if target is not None:
            if target not in others:
                self.error = f"replay diverged: switch to thread {target} at point {idx}, enabled others {others}"
                return
            self.sems[target].release()
            self.sems[tid].acquire()

    def _run_body(self, tid):
        self.sems[tid].acquire()
        tracer = self._make_tracer(tid)
        try:
            sys.settrace(tracer)
            try:
                self.results[tid] = ("ok", self.bodies[tid]())
            finally:
                sys.settrace(None)
        except BaseException as e:  # noqa: BLE001
            self.results[tid] = ("exc", e)
        self.done[tid] = True
        nxt = next((t for t in range(self.n) if not self.done[t]), None)
        if nxt is None:
            self.all_done.set()
        else:
            self.sems[nxt].release()

    def run(self):
        threads = [threading.Thread(target=self._run_body, args=(t,), daemon=True) for t in range(self.n)]
        for t in threads:
            t.start()
        self.sems[self.start].release()
        if not self.all_done.wait(WATCHDOG_S):
            raise HarnessError(f"schedule watchdog: threads did not finish (start={self.start}, "
                               f"switches={sorted(self.switch_at.items())})")
        for t in threads:
            t.join(WATCHDOG_S)
        if self.error:
            raise HarnessError(self.error)
        unused = [p for p in self.switch_at if p >= self.counter]
        if unused:
            raise HarnessError(f"replay diverged: switch points {unused} beyond the {self.counter} points of the run")
        self.ex.npoints = self.counter
        self.ex.results = self.results
        self.ex.per_thread_points = tuple(self.ppt)
        return self.ex


def explore(make_bodies, traced_files, bound, check, opcode_funcs=(), setup=None, max_schedules=None, part=None):
    """Enumerate every schedule with at most `bound` preemptions.  make_bodies() -> fresh list of
    thread bodies (callables); setup() runs before each execution (e.g. cache_clear); check(ex,
    schedule) judges one execution.  `part` = (start, lo, hi) restricts the enumeration to the schedules
    that start with thread `start` and whose FIRST switch point lies in [lo, hi) (the zero-preemption
    schedule of that start belongs to the part with lo == 0), so that one exploration can be split over
    worker processes without overlap.  Returns statistics."""
    stats = {"schedules": 0, "by_preemptions": {}, "max_points": 0, "point_counts": set(), "capped": False,
             "first_points": {}}
    nthreads = len(make_bodies())

    def run(start, switches, judge=True):
        if setup:
            setup()
        ex = Scheduler(make_bodies(), traced_files, opcode_funcs, start, switches).run()
        if not judge:
            return ex
        stats["schedules"] += 1
        k = len(switches)
        stats["by_preemptions"][k] = stats["by_preemptions"].get(k, 0) + 1
        stats["max_points"] = max(stats["max_points"], ex.npoints)
        stats["point_counts"].add(ex.per_thread_points)
        check(ex, {"threads": nthreads, "start": start, "switches": [list(s) for s in switches],
                   "preemptions": k})
        return ex

    def rec(start, switches):
        if max_schedules is not None and stats["schedules"] >= max_schedules:
            stats["capped"] = True
            return
        top = not switches
        ex = run(start, switches, judge=not (top and part is not None and part[1] != 0))
        if top:
            stats["first_points"][start] = sum(1 for o in ex.others_at if o)
        if len(switches) >= bound:
            return
        first = switches[-1][0] + 1 if switches else 0
        for p in range(first, ex.npoints):
            if top and part is not None and not part[1] <= p < part[2]:
                continue
            for t in ex.others_at[p]:
                rec(start, switches + ((p, t),))

    for s in range(nthreads):
        if part is None or part[0] == s:
            rec(s, ())
    return stats


def replay_twice(make_bodies, traced_files, schedule, observe, opcode_funcs=(), setup=None):
    """Replay one recorded schedule twice; observations must be identical."""
    obs = []
    for _ in range(2):
        if setup:
            setup()
        ex = Scheduler(make_bodies(), traced_files, opcode_funcs, schedule["start"],
                       tuple(tuple(s) for s in schedule["switches"])).run()
        obs.append(observe(ex))
    if obs[0] != obs[1]:
        raise HarnessError("the same schedule gave different observations on replay")
    return obs[0]
