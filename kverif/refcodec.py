"""E2 - KRef: an interpretive reference encoder/decoder for the Kafka wire format over *wire
values*.  Written from the protocol guide, KIP-482 and KIP-893 (see DESIGN.md appendix A); uses
only int.to_bytes / struct for doubles / explicit varint loops.  Imports nothing from kio.

Wire values: int (all integer types, error codes, durations and timestamps in milliseconds),
bool, float, str (string), bytes (bytes/records; uuid = 16 bytes), None (null), list (array),
dict (struct: field name -> value, plus the optional key "__x__" = {"emit": [names of tagged
fields sent although equal to their default], "unknown": [[tag, payload-bytes], ...]})."""

from __future__ import annotations

import struct

INT_RANGES = {
    "int8": (-(2**7), 2**7 - 1, 1, True),
    "int16": (-(2**15), 2**15 - 1, 2, True),
    "int32": (-(2**31), 2**31 - 1, 4, True),
    "int64": (-(2**63), 2**63 - 1, 8, True),
    "uint8": (0, 2**8 - 1, 1, False),
    "uint16": (0, 2**16 - 1, 2, False),
    "uint32": (0, 2**32 - 1, 4, False),
    "uint64": (0, 2**64 - 1, 8, False),
    "error_code": (-(2**15), 2**15 - 1, 2, True),
    "timedelta_i32": (-(2**31), 2**31 - 1, 4, True),
    "timedelta_i64": (-(2**63), 2**63 - 1, 8, True),
    "datetime_i64": (-(2**63), 2**63 - 1, 8, True),
}
UUID_NULL = bytes(16)


class RefError(Exception):
    """The wire value is not encodable / the bytes are not a conforming encoding."""


class RefUnderflow(RefError):
    pass


def uvarint(n: int) -> bytes:
    if n < 0:
        raise RefError(f"negative uvarint {n}")
    out = bytearray()
    while True:
        b = n & 0x7F
        n >>= 7
        if n:
            out.append(b | 0x80)
        else:
            out.append(b)
            return bytes(out)


def zigzag(n: int, bits: int) -> int:
    return (n << 1) ^ (n >> (bits - 1))


def unzigzag(n: int) -> int:
    return (n >> 1) ^ -(n & 1)


def svarint(n: int) -> bytes:
    return uvarint(zigzag(n, 32) & 0xFFFFFFFF)


def svarlong(n: int) -> bytes:
    return uvarint(zigzag(n, 64) & 0xFFFFFFFFFFFFFFFF)


def fixed(kind: str, v: int) -> bytes:
    lo, hi, width, signed = INT_RANGES[kind]
    if isinstance(v, bool) or not isinstance(v, int) or not lo <= v <= hi:
        raise RefError(f"{v!r} outside {kind}")
    return v.to_bytes(width, "big", signed=signed)


class Layout:
    """bytes plus, for every byte range, what it is: (start, end, kind, path).
    kind in {len, count, tag, size, marker, data}."""

    def __init__(self):
        self.buf = bytearray()
        self.spans = []

    def put(self, b: bytes, kind: str, path: str):
        s = len(self.buf)
        self.buf += b
        self.spans.append((s, len(self.buf), kind, path))

    def extend(self, other: "Layout"):
        off = len(self.buf)
        self.buf += other.buf
        self.spans.extend((s + off, e + off, k, p) for s, e, k, p in other.spans)

    def critical_offsets(self):
        """Offsets of bytes that steer the decoder: length prefixes, counts, tags, sizes,
        markers (varint continuation bytes included as they are part of those spans)."""
        out = []
        for s, e, k, _ in self.spans:
            if k != "data":
                out.extend(range(s, e))
        return out

    def where(self, off):
        for s, e, k, p in self.spans:
            if s <= off < e:
                return f"{p}[{k}]"
        return "?"


def _is_default(f, v, defaults_of):
    d = defaults_of(f)
    if isinstance(v, float) and isinstance(d, float):
        return v == d  # numeric equality: -0.0 counts as the default 0.0, as in Java
    return v == d and type(v) is type(d) or (v is None and d is None)


def encode(ws, value, defaults_of, lay: Layout | None = None, path: str = "") -> Layout:
    """Encode struct wire value `value` for WSchema `ws`.  defaults_of(WField) gives the wire-level
    default of a tagged field (used for elision)."""
    lay = Layout() if lay is None else lay
    if not isinstance(value, dict):
        raise RefError(f"struct value expected at {path or ws.path}")
    extra = value.get("__x__") or {}
    known = {f.name for f in ws.fields}
    for k in value:
        if k != "__x__" and k not in known:
            raise RefError(f"unknown field {k} at {path}")
    for f in ws.untagged:
        if f.name not in value:
            raise RefError(f"missing field {path}.{f.name}")
        _enc_field(ws, f, value[f.name], defaults_of, lay, f"{path}.{f.name}")
    if not ws.flexible:
        if ws.tagged or extra:
            raise RefError("tagged fields in a non-flexible struct")
        return lay
    # trailing tagged section: ascending tag order, defaults omitted unless forced
    entries = []
    force = set(extra.get("emit", ()))
    for f in ws.tagged:
        if f.name not in value:
            raise RefError(f"missing tagged field {path}.{f.name}")
        v = value[f.name]
        if _is_default(f, v, defaults_of) and f.name not in force:
            continue
        sub = Layout()
        _enc_field(ws, f, v, defaults_of, sub, f"{path}.{f.name}", tagged=True)
        entries.append((f.tag, sub, f"{path}.{f.name}"))
    for tag, payload in extra.get("unknown", ()):
        sub = Layout()
        sub.put(bytes(payload), "data", f"{path}.<unknown {tag}>")
        entries.append((tag, sub, f"{path}.<unknown {tag}>"))
    entries.sort(key=lambda e: e[0])
    tags = [e[0] for e in entries]
    if len(set(tags)) != len(tags):
        raise RefError("duplicate tag")
    lay.put(uvarint(len(entries)), "count", f"{path}.<tags>")
    for tag, sub, p in entries:
        lay.put(uvarint(tag), "tag", p)
        lay.put(uvarint(len(sub.buf)), "size", p)
        lay.extend(sub)
    return lay


def _enc_field(ws, f, v, defaults_of, lay, path, tagged=False):
    compact = ws.flexible
    if f.array:
        if v is None:
            if not f.nullable:
                raise RefError(f"null in non-nullable array {path}")
            lay.put(uvarint(0) if compact else fixed("int32", -1), "len", path)
            return
        if not isinstance(v, list):
            raise RefError(f"list expected at {path}")
        lay.put(uvarint(len(v) + 1) if compact else fixed("int32", len(v)), "len", path)
        for i, item in enumerate(v):
            _enc_scalar(ws, f, item, defaults_of, lay, f"{path}[{i}]", f.item_nullable, in_array=True)
        return
    _enc_scalar(ws, f, v, defaults_of, lay, path, f.nullable)


def _enc_scalar(ws, f, v, defaults_of, lay, path, nullable, in_array=False):
    compact = ws.flexible
    kt = f.kafka_type
    if f.nested is not None:
        if nullable and not in_array:
            if v is None:
                lay.put(fixed("int8", -1), "marker", path)
                return
            lay.put(fixed("int8", 1), "marker", path)
        elif v is None:
            raise RefError(f"null struct at {path}")
        encode(f.nested, v, defaults_of, lay, path)
        return
    if kt == "string" and ws.is_request_header and getattr(f, "pyname", f.name) == "client_id":
        compact = False
        nullable = True
    if kt in ("string", "bytes", "records"):
        if v is None:
            if not nullable:
                raise RefError(f"null in non-nullable {kt} at {path}")
            if compact:
                lay.put(uvarint(0), "len", path)
            else:
                lay.put(fixed("int16" if kt == "string" else "int32", -1), "len", path)
            return
        if kt == "string":
            if isinstance(v, str):
                raw = v.encode("utf-8")
            elif isinstance(v, bytes):  # raw (possibly invalid) UTF-8, used by fault tests
                raw = v
            else:
                raise RefError(f"str expected at {path}")
        else:
            if not isinstance(v, bytes):
                raise RefError(f"bytes expected at {path}")
            raw = v
        if compact:
            lay.put(uvarint(len(raw) + 1), "len", path)
        elif kt == "string":
            if len(raw) > 32767:
                raise RefError("legacy string too long")
            lay.put(fixed("int16", len(raw)), "len", path)
        else:
            lay.put(fixed("int32", len(raw)), "len", path)
        lay.put(raw, "data", path)
        return
    if kt == "uuid":
        if v is None:
            lay.put(UUID_NULL, "data", path)
        elif isinstance(v, bytes) and len(v) == 16:
            lay.put(v, "data", path)
        else:
            raise RefError(f"16 bytes expected at {path}")
        return
    if kt == "bool":
        if not isinstance(v, bool):
            raise RefError(f"bool expected at {path}")
        lay.put(b"\x01" if v else b"\x00", "data", path)
        return
    if kt == "float64":
        if not isinstance(v, float):
            raise RefError(f"float expected at {path}")
        lay.put(struct.pack(">d", v), "data", path)
        return
    if kt == "datetime_i64" and v is None:
        if not nullable:
            raise RefError(f"null timestamp at {path}")
        lay.put(fixed("int64", -1), "data", path)
        return
    if kt in INT_RANGES:
        if v is None:
            raise RefError(f"null in {kt} at {path}")
        lay.put(fixed(kt, v), "data", path)
        return
    raise RefError(f"unknown kafka type {kt!r}")


# ---------------------------------------------------------------------------------------
# decoder (mirror).  Returns the wire value; tagged fields absent on the wire are set to their
# defaults, unknown tags are skipped by size.  `strict` rejects what a canonical encoder never
# emits only where the protocol says a reader must (duplicate / descending tags).
# ---------------------------------------------------------------------------------------
class Src:
    def __init__(self, data: bytes, pos: int = 0):
        self.data = data
        self.pos = pos

    def take(self, n: int) -> bytes:
        if n < 0:
            raise RefError(f"negative length {n}")
        if self.pos + n > len(self.data):
            self.pos = len(self.data)
            raise RefUnderflow(f"need {n} bytes")
        b = self.data[self.pos : self.pos + n]
        self.pos += n
        return b

    def uvarint(self, max_bytes=5) -> int:
        r = 0
        for i in range(max_bytes):
            (b,) = self.take(1)
            r |= (b & 0x7F) << (7 * i)
            if not b & 0x80:
                return r
        raise RefError("varint too long")

    def fixed(self, kind):
        lo, hi, width, signed = INT_RANGES[kind]
        return int.from_bytes(self.take(width), "big", signed=signed)


def decode(ws, src: Src, defaults_of):
    out = {}
    for f in ws.untagged:
        out[f.name] = _dec_field(ws, f, src, defaults_of)
    if not ws.flexible:
        return out
    by_tag = {f.tag: f for f in ws.tagged}
    n = src.uvarint()
    last = -1
    seen = set()
    for _ in range(n):
        tag = src.uvarint()
        size = src.uvarint()
        if tag <= last:
            raise RefError("tags not ascending")
        last = tag
        body = Src(src.take(size))
        f = by_tag.get(tag)
        if f is None:
            continue
        out[f.name] = _dec_field(ws, f, body, defaults_of)
        seen.add(f.name)
        if body.pos != len(body.data):
            raise RefError("tagged field size mismatch")
    for f in ws.tagged:
        if f.name not in seen:
            out[f.name] = defaults_of(f)
    return {f.name: out[f.name] for f in ws.fields}


def _dec_field(ws, f, src, defaults_of):
    compact = ws.flexible
    if f.array:
        n = src.uvarint() - 1 if compact else src.fixed("int32")
        if n == -1:
            if not f.nullable:
                raise RefError("null array")
            return None
        if n < 0:
            raise RefError("negative array length")
        return [_dec_scalar(ws, f, src, defaults_of, f.item_nullable, True) for _ in range(n)]
    return _dec_scalar(ws, f, src, defaults_of, f.nullable, False)


def _dec_scalar(ws, f, src, defaults_of, nullable, in_array):
    compact = ws.flexible
    kt = f.kafka_type
    if f.nested is not None:
        if nullable and not in_array:
            m = src.fixed("int8")
            if m == -1:
                return None
            if m != 1:
                raise RefError("bad struct marker")
        return decode(f.nested, src, defaults_of)
    if kt == "string" and ws.is_request_header and getattr(f, "pyname", f.name) == "client_id":
        compact = False
        nullable = True
    if kt in ("string", "bytes", "records"):
        if compact:
            n = src.uvarint() - 1
        else:
            n = src.fixed("int16" if kt == "string" else "int32")
        if n == -1:
            if not nullable:
                raise RefError("unexpected null")
            return None
        raw = src.take(n)
        if kt == "string":
            try:
                return raw.decode("utf-8")
            except UnicodeDecodeError as e:
                raise RefError(str(e)) from None
        return raw
    if kt == "uuid":
        b = src.take(16)
        return None if b == UUID_NULL else b
    if kt == "bool":
        return src.take(1) != b"\x00"
    if kt == "float64":
        return struct.unpack(">d", src.take(8))[0]
    if kt == "datetime_i64":
        v = src.fixed("int64")
        return None if (nullable and v == -1) else v
    if kt in INT_RANGES:
        return src.fixed(kt)
    raise RefError(f"unknown kafka type {kt!r}")
