"""E4 - bounded value explorer: slot trees over WireSchemas, boundary alphabets, level-order
enumeration of the edit lattice up to k deviations from the base instance, and an independent
counting formula (polynomial product) that the enumeration must agree with."""

from __future__ import annotations

from . import bridge
from .core import HarnessError

I = {
    "int8": (-(2**7), 2**7 - 1),
    "int16": (-(2**15), 2**15 - 1),
    "int32": (-(2**31), 2**31 - 1),
    "int64": (-(2**63), 2**63 - 1),
    "uint8": (0, 2**8 - 1),
    "uint16": (0, 2**16 - 1),
    "uint32": (0, 2**32 - 1),
    "uint64": (0, 2**64 - 1),
}


def int_alphabet(lo, hi):
    cand = [0, 1, -1, lo, hi, lo + 1, hi - 1, 127, 128, 255, 256]
    out = []
    for c in cand:
        if lo <= c <= hi and c not in out:
            out.append(c)
    return out


def string_alphabet(compact, max_len):
    if compact:
        lens = [0, 1, 126, 127, 128, 16383, 16384]
    else:
        lens = [0, 1, 127, 128, 255, 256, 32767]
    out = ["a" * n for n in lens if n <= max_len]
    # multi-byte UTF-8: 2-, 3-, 4-byte code points alone and straddling the 127/128 boundary
    out += ["é", "€", "\U0001f600", "\x00", "\ufeffbom"]  # (a leading U+FEFF is a character of the value, not a signature)
    if max_len >= 128:
        out += ["é" * 63 + "a", "é" * 64, "€" * 42 + "a", "\U0001f600" * 32]
    return out


def bytes_alphabet(compact, max_len):
    if compact:
        lens = [0, 1, 126, 127, 128, 16383, 16384]
    else:
        lens = [0, 1, 127, 128, 255, 256, 32767]
    out = [b"\x00" * n for n in lens if n <= max_len]
    if max_len >= 32767:
        out.append(b"\x00" * 32768)  # byte strings have no int16 limit in either form: one size beyond what a string may have
    out += [b"\xff", b"\x80\x00\xff"]
    return out


TS_VALUE = [0, 1, 999, 1000, 1001, 2**31 * 1000, 1700000000123, bridge.MAX_DT_MS] + list(bridge.FOLD_TWINS)
TS_WIRE_EXTRA = [bridge.MAX_DT_MS + 1, 2**63 - 1, -2, -(2**63)]
TD32 = [0, 1, -1, 2**31 - 1, -(2**31), 1001, -1001]
TD64_VALUE = [0, 1, -1, 2**31 - 1, -(2**31), 2**31, 2**53 + 1, 2**53 - 1, -(2**53) - 1,
              bridge.TD_MIN_MS, bridge.TD_MAX_MS - 86400000]  # fmt: skip
TD64_WIRE_EXTRA = [2**63 - 1, -(2**63), bridge.TD_MAX_MS + 1, bridge.TD_MAX_MS, bridge.TD_MAX_MS - 86_400_000 + 1]
FLOAT_VALUE = [0.0, 1.5, -1.5, 1.7976931348623157e308, -1.7976931348623157e308, 5e-324, -0.0]


def _nan(payload_hex):
    import struct

    return struct.unpack(">d", bytes.fromhex(payload_hex))[0]


FLOAT_WIRE_EXTRA = [float("inf"), float("-inf"), _nan("7ff8000000000000"), _nan("7ff8000000000001"),
                    _nan("fff0000000000001")]  # fmt: skip
UUIDS = [(1).to_bytes(16, "big"), None, (2**128 - 1).to_bytes(16, "big"), bytes(15) + b"\x80"]

_error_codes = None


def error_code_alphabet():
    global _error_codes
    if _error_codes is None:
        vals = sorted(int(m.value) for m in bridge.error_code_cls())
        _error_codes = []
        for c in (0, -1, vals[-1], vals[len(vals) // 2], 1):
            if c in vals and c not in _error_codes:
                _error_codes.append(c)
    return _error_codes


def leaf_alphabet(ws, f, mode, max_len, item=False, default_of=None):
    default_of = default_of or bridge.wire_default
    """Ordered alphabet (simplest first) of wire values for one scalar slot."""
    kt = f.kafka_type
    compact = ws.flexible and not (ws.is_request_header and getattr(f, "pyname", f.name) == "client_id")
    nullable = f.item_nullable if item else f.nullable
    if ws.is_request_header and getattr(f, "pyname", f.name) == "client_id":
        nullable = True
    if kt in I:
        out = int_alphabet(*I[kt])
    elif kt == "bool":
        out = [False, True]
    elif kt == "float64":
        out = FLOAT_VALUE + (FLOAT_WIRE_EXTRA if mode == "wire" else [])
    elif kt == "string":
        out = string_alphabet(compact, max_len)
    elif kt in ("bytes", "records"):
        out = bytes_alphabet(compact, max_len)
    elif kt == "uuid":
        out = list(UUIDS)
        nullable = False  # None already in the alphabet (all-zero on the wire)
    elif kt == "error_code":
        out = list(error_code_alphabet())
        if mode == "wire":
            out.append(32767)  # unknown to this release: outside kio's representable domain
    elif kt == "timedelta_i32":
        out = list(TD32)
    elif kt == "timedelta_i64":
        out = TD64_VALUE + (TD64_WIRE_EXTRA if mode == "wire" else [])
    elif kt == "datetime_i64":
        out = TS_VALUE + (TS_WIRE_EXTRA if mode == "wire" else [])
    else:
        raise HarnessError(f"no alphabet for {kt}")
    out = list(out)
    if nullable and None not in out:
        out.insert(1, None)
    if not item and (f.has_default or f.tag is not None) and not f.array:  # a tagged field always has a default (KIP-482)
        d = default_of(f)
        if not any(bridge.same_wire(d, x) for x in out):
            out.insert(1, d)
        if kt in I and isinstance(d, int) and not isinstance(d, bool):
            for nb in (d - 1, d + 1):  # the neighbours of an explicit default (-2 next to -1: equal hashes in CPython)
                if I[kt][0] <= nb <= I[kt][1] and nb not in out:
                    out.append(nb)
        if f.tag is not None:  # base of a tagged field = its default (elided on the wire)
            i = next(i for i, x in enumerate(out) if bridge.same_wire(d, x))
            out.insert(0, out.pop(i))
    return out


# ---------------------------------------------------------------------------------------
# slot tree
# ---------------------------------------------------------------------------------------
class Leaf:
    __slots__ = ("path", "alts")

    def __init__(self, path, alts):
        self.path, self.alts = path, alts


class StructN:
    __slots__ = ("ws", "children", "path")

    def __init__(self, ws, children, path):
        self.ws, self.children, self.path = ws, children, path


class OptN:
    __slots__ = ("child", "path")

    def __init__(self, child, path):
        self.child, self.path = child, path


class ArrN:
    __slots__ = ("elem", "nullable", "path", "elem_b", "long")

    def __init__(self, elem, nullable, path, elem_b, long=False):
        self.elem, self.nullable, self.path, self.elem_b, self.long = elem, nullable, path, elem_b, long


def x_alternatives(ws, top=False):
    """Wire-first only: presence patterns of the tagged section of one flexible struct."""
    tagged = ws.tagged
    known = [f.tag for f in tagged]
    hi = (max(known) if known else -1) + 1
    alts = [None]
    for f in tagged:
        alts.append({"emit": [f.name]})
    if len(tagged) >= 2:
        alts.append({"emit": [f.name for f in tagged]})
    alts.append({"unknown": [[hi, b""]]})
    alts.append({"unknown": [[hi, b"\x00"]]})
    alts.append({"unknown": [[hi, b"\x01\x02\x03"]]})
    alts.append({"unknown": [[2**31 - 1, b"\xff"]]})
    alts.append({"unknown": [[hi, b"\x07"], [hi + 1, b""]]})
    # larger payloads: two-byte size prefix, beyond a 4 KiB page, (top level only) beyond 16 bits
    alts.append({"unknown": [[hi, b"\xa5" * 130]]})
    alts.append({"unknown": [[hi, b"\x5a" * 4097]]})
    if top:
        alts.append({"unknown": [[hi, b"\xc3" * 70000]]})
    gaps = [t for t in range(0, hi) if t not in known]
    if gaps:
        alts.append({"unknown": [[gaps[0], b"\x09"]]})
    if tagged:
        alts.append({"emit": [f.name for f in tagged], "unknown": [[hi, b"\x00\x00"]]})
        # an unknown tag *between*/before known ones needs a gap; otherwise after them
    return alts


def build(ws, mode="value", max_len=16384, path="", frozen_below=None, depth=0, default_of=None, long_arrays=False):
    default_of = default_of or bridge.wire_default
    children = []
    for f in ws.fields:
        p = f"{path}.{f.name}"
        if f.nested is not None:
            elem = build(f.nested, mode, max_len, p, frozen_below, depth + 1, default_of, long_arrays)
        else:
            elem = Leaf(p, leaf_alphabet(ws, f, mode, max_len, item=f.array, default_of=default_of))
        if f.array:
            # 127 / 128 items: the compact count (n + 1) moves from one varint byte to two
            node = ArrN(elem, f.nullable, p, variant_b(elem), long=long_arrays and ws.flexible)
        elif f.nested is not None and f.nullable:
            node = OptN(elem, p)
        else:
            node = elem
        if f.tag is not None and (f.array or f.nested is not None):
            node = DefaultFirst(node, default_of(f), p)
        children.append((f.name, node))
    if mode == "wire" and ws.flexible:
        children.append(("__x__", Leaf(f"{path}.<tags>", x_alternatives(ws, top=(depth == 0)))))
    node = StructN(ws, children, path)
    if frozen_below is not None and depth > frozen_below:
        return Leaf(path, [base_value(node)])
    return node


class DefaultFirst:
    """A tagged array/struct field: one extra alternative 'exactly the default'."""

    __slots__ = ("child", "default", "path")

    def __init__(self, child, default, path):
        self.child, self.default, self.path = child, default, path


def base_value(node):
    return next(gen(node, 0))[1]


def variant_b(node):
    """The fixed 'second element' used for order sensitivity: every scalar at alphabet item 1."""
    if isinstance(node, Leaf):
        return node.alts[1] if len(node.alts) > 1 else node.alts[0]
    if isinstance(node, StructN):
        return {n: variant_b(c) for n, c in node.children if n != "__x__"}
    if isinstance(node, OptN):
        return variant_b(node.child)
    if isinstance(node, ArrN):
        return [variant_b(node.elem)]
    if isinstance(node, DefaultFirst):
        return variant_b(node.child)
    raise HarnessError("variant_b")


HUGE_N = 2**21 + 4321  # beyond 1 MiB and 2 MiB (chunked I/O, pooled buffers), no multiple of either; its length needs a 4-byte varint


def huge_instances(node, ws=None, fname=None):
    """One wire value per string / bytes / records slot of the tree (any depth): the base instance with a payload of
    HUGE_N bytes in that slot.  Legacy strings (int16 length) cannot hold one and are left out."""
    if isinstance(node, Leaf):
        vals = [a for a in node.alts if a is not None]
        if vals and all(isinstance(a, bytes) for a in vals) and b"" in vals:  # (a uuid slot holds 16-byte values only)
            yield b"\xa7" * HUGE_N
        elif vals and all(isinstance(a, str) for a in vals) and ws is not None and ws.flexible \
                and not (ws.is_request_header and fname in ("client_id", "ClientId")):
            yield "h" * HUGE_N
        return
    if isinstance(node, StructN):
        base = base_value(node)
        for name, child in node.children:
            if name == "__x__":
                continue
            for hv in huge_instances(child, node.ws, name):
                w = dict(base)
                w[name] = hv
                yield w
        return
    if isinstance(node, (OptN, DefaultFirst)):
        yield from huge_instances(node.child, ws, fname)
        return
    if isinstance(node, ArrN):
        for hv in huge_instances(node.elem, ws, fname):
            yield [hv]
        return
    raise HarnessError("huge_instances")


def gen(node, budget):
    """Yield (cost, wire value, edits) for every edit set of size <= budget, each once."""
    if isinstance(node, Leaf):
        yield (0, node.alts[0], ())
        if budget >= 1:
            for i in range(1, len(node.alts)):
                yield (1, node.alts[i], ((node.path, i),))
        return
    if isinstance(node, StructN):
        names = [n for n, _ in node.children]
        partial = [(0, (), ())]
        for _, child in node.children:
            sub = list(gen(child, budget))
            new = []
            for c, vals, e in partial:
                room = budget - c
                for c2, v, e2 in sub:
                    if c2 <= room:
                        new.append((c + c2, vals + (v,), e + e2))
            partial = new
        for c, vals, e in partial:
            d = dict(zip(names, vals))
            if "__x__" in d and d["__x__"] is None:
                del d["__x__"]
            yield (c, d, e)
        return
    if isinstance(node, OptN):
        yield from gen(node.child, budget)
        if budget >= 1:
            yield (1, None, ((node.path, "null"),))
        return
    if isinstance(node, ArrN):
        for c, v, e in gen(node.elem, budget):
            yield (c, [v], e)
        if budget >= 1:
            yield (1, [], ((node.path, "len0"),))
            if node.nullable:
                yield (1, None, ((node.path, "null"),))
            for c, v, e in gen(node.elem, budget - 1):
                yield (c + 1, [v, v], e + ((node.path, "len2same"),))
                yield (c + 1, [v, node.elem_b], e + ((node.path, "len2diff"),))
            if node.long:
                b = base_value(node.elem)
                yield (1, [b] * 127, ((node.path, "len127"),))
                yield (1, [b] * 128, ((node.path, "len128"),))
        return
    if isinstance(node, DefaultFirst):
        yield from gen(node.child, budget)
        if budget >= 1:
            yield (1, node.default, ((node.path, "default"),))
        return
    raise HarnessError(f"gen: {node!r}")


def poly(node, budget):
    """Independent count: c[d] = number of edit sets of size exactly d (no enumeration)."""

    def mul(a, b):
        out = [0] * (budget + 1)
        for i, x in enumerate(a):
            if x:
                for j, y in enumerate(b):
                    if i + j <= budget:
                        out[i + j] += x * y
        return out

    def add(a, b):
        return [x + y for x, y in zip(a, b)]

    def x_times(a, k):  # k * x * a
        return [0] + [k * v for v in a[:budget]]

    one = [1] + [0] * budget
    if isinstance(node, Leaf):
        p = [0] * (budget + 1)
        p[0] = 1
        if budget >= 1:
            p[1] = len(node.alts) - 1
        return p
    if isinstance(node, StructN):
        p = one
        for _, c in node.children:
            p = mul(p, poly(c, budget))
        return p
    if isinstance(node, OptN):
        return add(poly(node.child, budget), x_times(one, 1))
    if isinstance(node, ArrN):
        pe = poly(node.elem, budget)
        return add(add(pe, x_times(pe, 2)), x_times(one, (2 if node.nullable else 1) + (2 if node.long else 0)))
    if isinstance(node, DefaultFirst):
        return add(poly(node.child, budget), x_times(one, 1))
    raise HarnessError("poly")


def count_slots(node):
    if isinstance(node, Leaf):
        return 1 if len(node.alts) > 1 else 0
    if isinstance(node, StructN):
        return sum(count_slots(c) for _, c in node.children)
    if isinstance(node, (OptN, DefaultFirst)):
        return 1 + count_slots(node.child)
    if isinstance(node, ArrN):
        return 1 + count_slots(node.elem)
    return 0


def explore(ws, k, mode="value", max_len=16384, own_k=None, max_states=None):
    """Enumerate all edit sets of size <= k on the full tree, plus (if own_k > k) all edit sets
    of size <= own_k on the top-level-only tree.  Yields (cost, wire value, edits) once per
    distinct edit set; verifies the count against poly().  Returns via generator; the final
    statistics are available from the returned Stats object passed by the caller."""
    raise NotImplementedError  # see Explorer


class Explorer:
    def __init__(self, ws, k, mode="value", max_len=16384, own_k=None, cap=None, default_of=None, long_arrays=False):
        self.ws, self.k, self.mode = ws, k, mode
        self.tree = build(ws, mode, max_len, default_of=default_of, long_arrays=long_arrays)
        self.own_tree = None
        self.own_k = own_k
        if own_k is not None and own_k > k:
            self.own_tree = build(ws, mode, max_len, frozen_below=0, default_of=default_of, long_arrays=long_arrays)
        self.cap = cap
        self.edit_sets = 0
        self.transitions = 0
        self.capped = False
        self.by_level = {}
        self.slots = count_slots(self.tree)

    def expected_count(self):
        n = sum(poly(self.tree, self.k))
        if self.own_tree is not None:
            p = poly(self.own_tree, self.own_k)
            n += sum(p[self.k + 1 :])
        return n

    def __iter__(self):
        if self.cap is not None and self.expected_count() > self.cap:
            # lower k until it fits; reported as a cap, never as exhaustive at the asked bound
            self.capped = True
            while self.k > 0 and self.expected_count() > self.cap:
                if self.own_tree is not None and self.own_k > self.k:
                    self.own_k -= 1
                    if self.own_k <= self.k:
                        self.own_tree = None
                else:
                    self.k -= 1
        n = 0
        for c, v, e in gen(self.tree, self.k):
            n += 1
            self.transitions += c
            self.by_level[c] = self.by_level.get(c, 0) + 1
            yield c, v, e
        if self.own_tree is not None:
            for c, v, e in gen(self.own_tree, self.own_k):
                if c > self.k:
                    n += 1
                    self.transitions += c
                    self.by_level[c] = self.by_level.get(c, 0) + 1
                    yield c, v, e
        self.edit_sets = n
        if n != self.expected_count():
            raise HarnessError(
                f"{self.ws.path}: enumerated {n} edit sets, counting formula says "
                f"{self.expected_count()}"
            )


def freeze(w):
    """Hashable canonical form of a wire value (distinguishes -0.0 / NaN payloads / bool)."""
    import struct

    if isinstance(w, dict):
        return ("d",) + tuple((k, freeze(v)) for k, v in w.items())
    if isinstance(w, list):
        return ("l",) + tuple(freeze(v) for v in w)
    if isinstance(w, float):
        return ("f", struct.pack(">d", w))
    if isinstance(w, bool):
        return ("b", w)
    if isinstance(w, int):
        # as text: CPython hashes integers modulo 2^61 - 1 and maps -1 to -2, so hash(-1) == hash(-2) and
        # hash(2^63 - 1) == hash(3); the explorers deduplicate states by hash(freeze(w)), and two states that differ in
        # one such leaf must not be taken for one (string hashes have no such systematic collisions)
        return "#" + str(w)
    return w
