"""E8 - run the CURRENT generator (/repo/codegen) on a set of message definitions in a scratch tree
outside /repo and /verif, and describe / verify the generated package in a subprocess."""

from __future__ import annotations

import json
import os
import shutil
import subprocess
import sys
import tempfile

from .core import REPO, ROOT, HarnessError

PY = sys.executable


def scratch_root():
    base = os.environ.get("KVERIF_SCRATCH") or tempfile.gettempdir()
    return base


class Scratch:
    """A throw-away copy of codegen/ and src/kio (minus schema/) with definitions to generate from."""

    def __init__(self, defs: dict, error_codes: str, build_tag="3.9.0"):
        self.path = tempfile.mkdtemp(prefix="kverif-gen-", dir=scratch_root())
        try:
            shutil.copytree(os.path.join(REPO, "codegen"), os.path.join(self.path, "codegen"),
                            ignore=shutil.ignore_patterns("__pycache__"))
            shutil.copytree(os.path.join(REPO, "src", "kio"), os.path.join(self.path, "src", "kio"),
                            ignore=lambda d, names: [n for n in names if n == "__pycache__" or (os.path.basename(d) == "kio" and n == "schema")])
            os.makedirs(os.path.join(self.path, "src", "kio", "schema"))
            open(os.path.join(self.path, "src", "kio", "schema", "__init__.py"), "w").close()
            vfile = os.path.join(self.path, "src", "kio", "_version.py")
            if not os.path.exists(vfile):
                open(vfile, "w").write('__version__ = "0.0.0"\n__version_tuple__ = (0, 0, 0)\n')
            sdir = os.path.join(self.path, "schema", build_tag)
            os.makedirs(sdir)
            for name, text in defs.items():
                with open(os.path.join(sdir, name), "w") as f:
                    f.write(text if isinstance(text, str) else json.dumps(text, indent=1))
            with open(os.path.join(self.path, "error-codes.txt"), "w") as f:
                f.write(error_codes)
            os.makedirs(os.path.join(self.path, "tests", "generated"))
            open(os.path.join(self.path, "tests", "__init__.py"), "w").close()
        except Exception:
            self.remove()
            raise

    def env(self, with_verif=False):
        env = dict(os.environ)
        pp = [os.path.join(self.path, "src"), self.path]
        if with_verif:
            pp.append(ROOT)
        env["PYTHONPATH"] = os.pathsep.join(pp)
        env["PYTHONDONTWRITEBYTECODE"] = "1"
        env["PYTHONHASHSEED"] = "0"
        return env

    def generate(self, timeout=600):
        """python -m codegen error-codes.txt in the scratch tree.  -> (returncode, tail of output)"""
        p = subprocess.run([PY, "-m", "codegen", "error-codes.txt"], cwd=self.path, env=self.env(),
                           capture_output=True, text=True, timeout=timeout)
        return p.returncode, (p.stdout[-3000:] + "\n" + p.stderr[-3000:])

    def generate_one_by_one(self, timeout=600):
        """Run the generator's own steps but parse each definition separately so that one unsupported
        definition does not abort the batch.  -> {filename: error text} for definitions the generator
        rejected (raised on)."""
        code = r'''
import json, os, pathlib, shutil, sys, traceback
from codegen import recreate_schema_path, generate_error_codes, generate_schema, generate_index
from codegen import build_tag
sys.argv = ["codegen", "error-codes.txt"]
recreate_schema_path.main()
generate_error_codes.main()
import io, contextlib
rejected = {}
orig_glob = pathlib.Path.glob
files = sorted((pathlib.Path("schema") / build_tag).glob("*.json"))
for f in files:
    def one(self, pattern, _f=f):
        if pattern == "*.json":
            return iter([_f])
        return orig_glob(self, pattern)
    pathlib.Path.glob = one
    before = set(os.listdir("src/kio/schema"))
    try:
        with contextlib.redirect_stdout(io.StringIO()):
            generate_schema.main()
    except BaseException as e:
        rejected[f.name] = f"{type(e).__name__}: {str(e)[:300]}"
        # a rejected definition must not leave half-written modules behind
        for new in set(os.listdir("src/kio/schema")) - before:
            shutil.rmtree(os.path.join("src/kio/schema", new), ignore_errors=True)
        generate_schema.module_exports.clear()
        generate_schema.seen = set()
    finally:
        pathlib.Path.glob = orig_glob
json.dump(rejected, open("rejected.json", "w"))
try:
    with contextlib.redirect_stdout(io.StringIO()):
        generate_index.main()
    json.dump({"ok": True}, open("index_status.json", "w"))
except BaseException as e:
    json.dump({"ok": False, "error": f"{type(e).__name__}: {str(e)[:300]}"}, open("index_status.json", "w"))
'''
        p = subprocess.run([PY, "-c", code], cwd=self.path, env=self.env(), capture_output=True, text=True, timeout=timeout)
        rej = {}
        if os.path.exists(os.path.join(self.path, "rejected.json")):
            rej = json.load(open(os.path.join(self.path, "rejected.json")))
        idx = {"ok": False, "error": "generator driver crashed"}
        if os.path.exists(os.path.join(self.path, "index_status.json")):
            idx = json.load(open(os.path.join(self.path, "index_status.json")))
        return p.returncode, rej, idx, (p.stdout[-2000:] + "\n" + p.stderr[-3000:])

    def describe(self, timeout=600):
        out = os.path.join(self.path, "describe.json")
        p = subprocess.run([PY, "-m", "kverif.describe", os.path.join(self.path, "src"), out], cwd=self.path,
                           env=self.env(with_verif=True), capture_output=True, text=True, timeout=timeout)
        if p.returncode != 0:
            return None, p.stdout[-2000:] + p.stderr[-3000:]
        return json.load(open(out)), ""

    def run_module(self, module, args, timeout=1200):
        p = subprocess.run([PY, "-m", module, *args], cwd=self.path, env=self.env(with_verif=True),
                           capture_output=True, text=True, timeout=timeout)
        return p.returncode, p.stdout[-4000:] + "\n" + p.stderr[-4000:]

    def remove(self):
        shutil.rmtree(self.path, ignore_errors=True)

    def __enter__(self):
        return self

    def __exit__(self, *a):
        self.remove()


def pinned_definitions():
    d = os.path.join(ROOT, "pins", "definitions-3.9.0")
    defs = {}
    for fn in sorted(os.listdir(d)):
        if fn.endswith(".json"):
            defs[fn] = open(os.path.join(d, fn)).read()
    err = open(os.path.join(d, "error-codes.txt")).read()
    if len(defs) != 186:
        raise HarnessError(f"{len(defs)} pinned definitions, expected 186")
    return defs, err
