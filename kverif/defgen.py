"""defgen - a bounded grammar of upstream message definitions.  quick(): a fixed sub-grammar (does not
depend on VERIF_SEED); thorough(): every sentence of the grammar after well-formedness pruning."""

from __future__ import annotations

import itertools

PRIM = ["bool", "int8", "int16", "int32", "int64", "uint16", "uint32", "uint64", "float64", "string", "bytes", "uuid", "records"]
NULLABLE_PRIM = ("string", "bytes", "records")
VERSIONS = ["0+", "1+", "0-1", "1", "2+"]
VALID = ["0-3", "0-2", "1-3"]
FLEX = ["2+", "none", "0+"]
NULLV = [None, "0+", "1+", "2+"]
TAGS = [None, 0, 1, 5]

DEFAULTS = {
    "bool": ["true", "false", True, False],
    "int8": ["0", "-1", "0x7f", 5],
    "int16": ["0", "-1", "0x7f", 300],
    "int32": ["0", "-1", "0x7f", "2147483647"],
    "int64": ["0", "-1", "0x7f", "9223372036854775807"],
    "uint16": ["0", "65535", "0x7f"],
    "uint32": ["0", "4294967295"],
    "uint64": ["0", "0x7f"],
    "float64": ["0.5", "0.0", 1.5],
    # (a string default is taken verbatim: blanks at the edges, quotes and backslashes are part of the value)
    "string": ["", "abc", "null", " pad ", "it's", 'say "hi"', "back\\slash", "\u00e9"],
    "bytes": ["null"],
    "uuid": [],
    "records": ["null"],
}


def flex_lo(flex):
    return None if flex == "none" else int(flex[:-1])


def field_templates():
    """(label, builder(name) -> field dict without version attributes, element kind)"""
    out = []
    for t in PRIM:
        out.append((t, lambda name, t=t: {"name": name, "type": t}, t, False))
        if t != "records":
            out.append((f"[]{t}", lambda name, t=t: {"name": name, "type": f"[]{t}"}, t, True))
    sub = [{"name": "Inner", "type": "int32", "versions": "0+"}, {"name": "Label", "type": "string", "versions": "1+", "nullableVersions": "1+"}]
    out.append(("struct", lambda name: {"name": name, "type": "Sub" + name, "fields": [dict(f) for f in sub]}, None, False))
    out.append(("[]struct", lambda name: {"name": name, "type": "[]Sub" + name, "fields": [dict(f) for f in sub]}, None, True))
    out.append(("common", lambda name: {"name": name, "type": "Shared"}, "common", False))
    out.append(("[]common", lambda name: {"name": name, "type": "[]Shared"}, "common", True))
    return out


COMMON = [{"name": "Shared", "versions": "0+", "fields": [{"name": "Code", "type": "int16", "versions": "0+"},
                                                          {"name": "Note", "type": "string", "versions": "2+", "default": "n"}]}]

_counter = itertools.count()


def make_def(kind, valid, flex, fields, api_key=None, commons=False, name=None):
    i = next(_counter)
    base = name or f"Gen{i:05d}"
    d = {"type": kind, "validVersions": valid, "flexibleVersions": flex, "fields": fields}
    if kind in ("request", "response"):
        d["name"] = base + kind.capitalize()
        d["apiKey"] = api_key if api_key is not None else 100 + (i % 20000)
    else:
        d["name"] = base
    if commons:
        d["commonStructs"] = [dict(c) for c in COMMON]
    return d


def one_field(label, build, kind, array, versions="0+", valid="0-3", flex="2+", nullv=None, tag=None, ignorable=False,
              default=None, mkind="request", api_key=None, fname="Probe"):
    """A definition with a leading int8, the probed field and a trailing int16; None if ill-formed."""
    f = build(fname)
    f["versions"] = versions
    lo = flex_lo(flex)
    if nullv is not None:
        if kind in NULLABLE_PRIM and not array or kind is None or kind == "common" or array:
            f["nullableVersions"] = nullv
        else:
            return None
    if tag is not None:
        if lo is None:
            return None
        if nullv is not None and kind in (None, "common") and not array:
            # a tagged *nullable struct*: the wire form (marker byte inside the tagged payload or not) is
            # not anchored by any vector or by the shipped schema - outside the grammar, said in DESIGN.md
            return None
        # tagged versions = the flexible suffix of the field's versions
        vlo = int(versions.rstrip("+").split("-")[0])
        start = max(lo, vlo)
        vhi = None if versions.endswith("+") else int(versions.split("-")[-1])
        if vhi is not None and start > vhi:
            return None
        f["tag"] = tag
        f["taggedVersions"] = f"{start}+"
        if vhi is not None or vlo < start:
            # a field that exists (untagged) before it becomes tagged: upstream does this (e.g. 0+ / tagged 2+)
            pass
    if ignorable:
        f["ignorable"] = True
    if default is not None:
        if array or kind in (None, "common"):
            if default != "null":
                return None
        f["default"] = default
        if default == "null" and "nullableVersions" not in f and kind not in (None, "common"):
            return None
    fields = [{"name": "Lead", "type": "int8", "versions": "0+"}, f, {"name": "Trail", "type": "int16", "versions": "0+"}]
    return make_def(mkind, valid, flex, fields, api_key, commons=(kind == "common"))


def quick():
    """One factor at a time around a base configuration, plus the pairs upstream actually uses."""
    out = []
    for label, build, kind, array in field_templates():
        def add(**kw):
            d = one_field(label, build, kind, array, **kw)
            if d is not None:
                out.append(d)

        add()
        for v in VERSIONS[1:]:
            add(versions=v)
        for v in VALID[1:]:
            add(valid=v)
        for fl in FLEX[1:]:
            add(flex=fl)
        for nv in NULLV[1:]:
            add(nullv=nv)
            add(nullv=nv, versions="1+")
        for t in TAGS[1:]:
            add(tag=t)
            add(tag=t, ignorable=True)
        add(tag=0, flex="0+")
        add(tag=0, versions="2+")
        add(tag=1, nullv="2+", default="null", ignorable=True)
        add(tag=1, nullv="0+", default="null", flex="0+")
        for d in DEFAULTS.get(kind, []) if not array else []:
            add(default=d, nullv=("0+" if d == "null" else None))
            add(default=d, tag=0, nullv=("2+" if d == "null" else None))
            add(default=d, tag=0, ignorable=True, nullv=("2+" if d == "null" else None))
        add(ignorable=True)
        for mk, key in (("response", None), ("header", None), ("data", None), ("request", 7), ("response", 18), ("request", 18), ("response", 7)):
            add(mkind=mk, api_key=key, valid="0-3")
            add(mkind=mk, api_key=key, flex="0+")
    out += special_names() + two_field() + nested_shapes() + api_pairs() + name_clashes()
    return out


def thorough():
    out = list(quick())
    for label, build, kind, array in field_templates():
        defaults = [None] + (DEFAULTS.get(kind, []) if not array else [])
        for versions, valid, flex, nullv, tag, ign, default in itertools.product(VERSIONS, VALID, FLEX, NULLV, TAGS, (False, True), defaults):
            if default == "null" and nullv is None:
                continue
            d = one_field(label, build, kind, array, versions=versions, valid=valid, flex=flex, nullv=nullv, tag=tag, ignorable=ign, default=default)
            if d is not None:
                out.append(d)
    return out


def special_names():
    out = []
    F = lambda n, t, **kw: dict({"name": n, "type": t, "versions": "0+"}, **kw)  # noqa: E731
    names = [("ThrottleTimeMs", "int32", {}), ("RetentionTimeMs", "int64", {}), ("LogAppendTimeMs", "int64", {"default": "-1"}),
             ("LogAppendTimeMs", "int64", {}), ("SessionTimeoutMs", "int32", {"default": "-1"}), ("ErrorCode", "int16", {}),
             ("PartitionErrorCode", "int16", {}), ("ISRReplicas", "[]int32", {}), ("V3AndBelow", "bool", {}), ("Type", "int8", {}),
             ("Id", "int32", {}), ("InSyncReplicas", "[]int32", {}), ("WhatIsQ", "string", {}), ("TopicName", "string", {"entityType": "topicName"}),
             ("BrokerId", "int32", {"entityType": "brokerId", "default": "-1"}), ("ProducerId", "int64", {"entityType": "producerId"}),
             ("Groups", "[]string", {"entityType": "groupId"}), ("Crc32C", "int32", {}), ("Sha256ID", "bytes", {}), ("Offset64K", "int64", {}),
             ("V0Port", "int32", {}), ("X509Cert", "string", {}), ("MaxTimestampMs", "int64", {}), ("ExpiryTimestampMs", "int64", {"default": "-1"}),
             # words that are Python builtins when run together (only the snake-cased result decides about the underscore suffix)
             ("ByteArray", "bytes", {}), ("FrozenSet", "[]int32", {}), ("IsInstance", "bool", {}), ("MemoryView", "bytes", {}), ("ClassMethod", "string", {}),
             ("Input", "string", {}), ("Format", "int8", {}), ("Hash", "int64", {}), ("Max", "int32", {}), ("Match", "string", {})]
    for n, t, kw in names:
        for flex in ("none", "0+"):
            for mk in ("request", "response"):
                out.append(make_def(mk, "0-1", flex, [F("Lead", "int8"), F(n, t, **kw), F("Trail", "int16")]))
    # the same special names as TAGGED fields (ignorable, with and without default)
    tagged = [("LogAppendTimeMs", "int64", {"default": "-1", "ignorable": True}), ("LogAppendTimeMs", "int64", {"default": "-1"}),
              # (tagged + ignorable + no default on a ...Ms or ErrorCode field is left out: kio's documented convention makes
              # such a field Optional with default None, for which these types have no wire form to compare with)
              ("ThrottleTimeMs", "int32", {"default": "0"}), ("ErrorCode", "int16", {"default": "0"}), ("ErrorCode", "int16", {"ignorable": True}),
              ("PartitionErrorCode", "int16", {"ignorable": True}),
              ("TopicName", "string", {"entityType": "topicName", "ignorable": True}), ("TopicName", "string", {"entityType": "topicName", "default": "t"}),
              ("BrokerId", "int32", {"entityType": "brokerId", "ignorable": True}), ("GroupId", "string", {"entityType": "groupId", "nullableVersions": "0+", "default": "null"}),
              ("ProducerId", "int64", {"entityType": "producerId", "default": "-1"})]
    for n, t, kw in tagged:
        for mk in ("request", "response"):
            out.append(make_def(mk, "0-1", "0+", [F("Lead", "int8"), F(n, t, tag=0, taggedVersions="0+", **kw), F("Trail", "int16")]))
    return out


def two_field():
    out = []
    F = lambda n, t, **kw: dict({"name": n, "type": t, "versions": "0+"}, **kw)  # noqa: E731
    sub = lambda: [F("Alpha", "int32"), F("Beta", "string", versions="1+")]  # noqa: E731
    # tag ordering: declared in descending tag order, mixed with untagged fields
    out.append(make_def("request", "0-2", "1+", [F("Zed", "int32", tag=5, taggedVersions="1+"), F("Mid", "int8"),
                                                  F("Yak", "string", tag=1, taggedVersions="1+"), F("Xen", "int64", tag=0, taggedVersions="1+", default="7")]))
    out.append(make_def("response", "0-2", "0+", [F("Bee", "string", tag=2, taggedVersions="0+", nullableVersions="0+", default="null"),
                                                   F("Aye", "[]int32", tag=1, taggedVersions="0+"), F("Cee", "uuid", tag=0, taggedVersions="0+", ignorable=True)]))
    # two struct fields sharing one nested struct type; struct declared once, referenced twice
    out.append(make_def("request", "0-2", "2+", [F("First", "Pair", fields=sub()), F("Others", "[]Pair"), F("Trail", "int8")]))
    # common struct used as scalar and array, with a field appearing in a later version
    out.append(make_def("response", "0-3", "2+", [F("One", "Shared"), F("Many", "[]Shared", versions="1+"), F("Trail", "int8")], commons=True))
    # field order with version gaps
    out.append(make_def("request", "0-3", "none", [F("Aa", "int8", versions="0-1"), F("Bb", "int16", versions="2+"), F("Cc", "int32", versions="1-2"), F("Dd", "string", versions="3")]))
    # same field name in parent and child; nested arrays two deep
    out.append(make_def("response", "0-2", "1+", [F("Name", "string"), F("Items", "[]Item", fields=[F("Name", "string"), F("Parts", "[]Part", fields=[F("Name", "string", nullableVersions="1+"), F("Ids", "[]int64")])])]))
    # nullable struct and nullable struct array
    out.append(make_def("request", "0-2", "1+", [F("Maybe", "Opt", nullableVersions="1+", fields=sub()), F("MaybeMany", "[]OptItem", nullableVersions="0+", fields=sub()), F("Trail", "int8")]))
    out.append(make_def("request", "0-1", "0+", [F("Maybe", "Opt", nullableVersions="0+", default="null", fields=sub()), F("Trail", "int8")]))
    # tagged struct whose members all have defaults (FetchRequest.ReplicaState shape) and one whose members do not
    out.append(make_def("request", "0-2", "1+", [F("Lead", "int8"), F("State", "StateT", tag=1, taggedVersions="1+", versions="1+",
                                                                       fields=[F("Xx", "int32", default="-1"), F("Yy", "int64", default="-1")])]))
    out.append(make_def("response", "0-2", "1+", [F("Lead", "int8"), F("Leader", "LeaderT", tag=0, taggedVersions="1+", versions="1+",
                                                                        fields=[F("LeaderId", "int32", default="-1"), F("Host", "string"), F("Port", "int32")])]))
    # tagged struct array
    out.append(make_def("response", "0-2", "1+", [F("Lead", "int8"), F("Nodes", "[]NodeT", tag=0, taggedVersions="1+", versions="1+", fields=[F("Id", "int32"), F("Host", "string")])]))
    # nullable primitive arrays (upstream: ConsumerGroupHeartbeatRequest.SubscribedTopicNames)
    out.append(make_def("request", "0-1", "0+", [F("Names", "[]string", nullableVersions="0+", default="null"), F("Trail", "int8")]))
    out.append(make_def("request", "0-1", "none", [F("Ids", "[]int32", nullableVersions="0+"), F("Trail", "int8")]))
    return out


def api_pairs():
    """request + response of ONE api (same base name, same api key) declaring same-named structures"""
    out = []
    F = lambda n, t, **kw: dict({"name": n, "type": t, "versions": "0+"}, **kw)  # noqa: E731
    for i, flex in enumerate(("none", "1+")):
        base = f"Pair{i}Widget"
        topic_req = [F("Name", "string"), F("Partitions", "[]int32")]
        topic_res = [F("Name", "string"), F("ErrorCode", "int16"), F("Extra", "int64", versions="1+")]
        req = make_def("request", "0-2", flex, [F("Topics", "[]WidgetTopic", fields=topic_req), F("Single", "WidgetInfo", fields=[F("Alpha", "int8")])], api_key=9000 + i, name=base)
        res = make_def("response", "0-2", flex, [F("ThrottleTimeMs", "int32"), F("Topics", "[]WidgetTopic", fields=topic_res), F("Single", "WidgetInfo", fields=[F("Beta", "string")])], api_key=9000 + i, name=base)
        out += [req, res]
    # keys of the upstream format that carry no structure (the generator reads past them): every declared version of
    # both halves is still generated
    req = make_def("request", "0-3", "2+", [F("GroupId", "string", entityType="groupId", about="The group."), F("Epoch", "int32", default="-1", about="x")], api_key=9010, name="Pair9Widget")
    req.update({"latestVersionUnstable": True, "listeners": ["zkBroker", "broker"], "about": "A request."})
    res = make_def("response", "0-3", "2+", [F("ThrottleTimeMs", "int32"), F("ErrorCode", "int16")], api_key=9010, name="Pair9Widget")
    out += [req, res]
    return out


def name_clashes():
    """definitions processed in ONE generator run that share names: the same common-struct name with different
    bodies in different files (upstream: TopicPartitions), and the api key 0"""
    out = []
    F = lambda n, t, **kw: dict({"name": n, "type": t, "versions": "0+"}, **kw)  # noqa: E731
    bodies = [[F("TopicId", "uuid"), F("Partitions", "[]int32")],
              [F("TopicId", "uuid"), F("TopicName", "string"), F("Partitions", "[]int32")],
              [F("Partitions", "[]int32"), F("Epoch", "int32", default="-1")]]
    for i, body in enumerate(bodies):
        d = make_def("response", "0-1", "0+", [F("ErrorCode", "int16"), F("Assigned", "[]TopicPartitions"), F("One", "TopicPartitions", versions="1+")], name=f"Clash{i}Group")
        d["commonStructs"] = [{"name": "TopicPartitions", "versions": "0+", "fields": body}]
        out.append(d)
    out.append(make_def("request", "0-1", "1+", [F("Lead", "int8"), F("Name", "string")], api_key=0, name="KeyZero"))
    out.append(make_def("response", "0-1", "1+", [F("ErrorCode", "int16")], api_key=0, name="KeyZero"))
    return out


def nested_shapes():
    out = []
    F = lambda n, t, **kw: dict({"name": n, "type": t, "versions": "0+"}, **kw)  # noqa: E731
    # forward reference between common structs (AddPartitionsToTxn shape)
    d = make_def("response", "0-1", "0+", [F("ByTxn", "[]TxnResult", fields=[F("TxnId", "string"), F("Topics", "[]TopicResult")]), F("Direct", "[]TopicResult", versions="0")])
    d["commonStructs"] = [{"name": "TopicResult", "versions": "0+", "fields": [F("Name", "string"), F("Parts", "[]PartResult")]},
                          {"name": "PartResult", "versions": "0+", "fields": [F("Index", "int32"), F("ErrorCode", "int16")]}]
    out.append(d)
    out.append(make_def("data", "0-1", "none", [F("Topics", "[]string"), F("UserData", "bytes", nullableVersions="0+", default="null"), F("Gen", "int32", versions="1+", default="-1")], name="SomeData"))
    # tagged inside tagged: a tagged struct (and a tagged struct array) whose own members are tagged - the value of the
    # outer tagged field is encoded while another tagged field is being encoded (no shipped 3.9.0 class nests them)
    for mk in ("request", "response"):
        out.append(make_def(mk, "0-1", "0+", [F("Lead", "int8"),
                                              F("Outer", "OuterT", tag=0, taggedVersions="0+", fields=[F("Aa", "int32"), F("Bb", "int16", tag=0, taggedVersions="0+"),
                                                                                                      F("Cc", "string", tag=1, taggedVersions="0+")]),
                                              F("Many", "[]ItemT", tag=1, taggedVersions="0+", fields=[F("Ident", "int32"), F("Note", "string", tag=0, taggedVersions="0+"),
                                                                                                     F("Deep", "DeepT", tag=1, taggedVersions="0+", fields=[F("Zz", "int64", tag=0, taggedVersions="0+", default="-1")])]),
                                              F("Trail", "int16")]))
    return out
