"""defspec - an independent reading of an upstream Kafka message definition (the JSON format of
clients/src/main/resources/common/message/*.json, as described in that directory's README): for a
(definition, version) the expected structures, fields, wire types, nullability, tags, defaults,
flexibility, api key and header.  Imports nothing from kio or codegen."""

from __future__ import annotations

import json
import re

PRIMS = ("bool", "int8", "int16", "int32", "int64", "uint16", "uint32", "uint64", "float64", "string", "bytes", "uuid", "records")
NULL_CAPABLE = ("string", "bytes", "records")


class BadDefinition(Exception):
    pass


def strip_comments(text: str) -> str:
    return "\n".join(l for l in text.splitlines() if not re.match(r"^\s*//", l))


def parse_range(s):
    """'N' | 'N-M' | 'N+' | 'none' -> (lo, hi) with hi None = unbounded; None = empty"""
    if s is None:
        return None
    if s == "none":
        return None
    m = re.fullmatch(r"(\d+)\+", s)
    if m:
        return (int(m.group(1)), None)
    m = re.fullmatch(r"(\d+)-(\d+)", s)
    if m:
        return (int(m.group(1)), int(m.group(2)))
    m = re.fullmatch(r"(\d+)", s)
    if m:
        return (int(m.group(1)), int(m.group(1)))
    raise BadDefinition(f"bad version range {s!r}")


def in_range(r, v):
    return r is not None and r[0] <= v and (r[1] is None or v <= r[1])


SNAKE_TABLE = {"Id": "id_", "Type": "type_", "ISRReplicas": "isr_replicas", "ISR": "isr", "InSyncReplicas": "in_sync_replicas",
               "WhatIsQ": "what_is_q", "V3AndBelow": "v3_and_below",
               # a capital after a digit starts a new word only when a lower-case letter follows (pinned from the
               # baseline behaviour of codegen/case.py, the doctests do not cover these)
               "Crc32C": "crc32c", "Sha256ID": "sha256id", "Offset64K": "offset64k", "V0Port": "v0_port", "X509Cert": "x509_cert"}


def snake(name: str) -> str:
    """The naming convention, restated as a regex; only trusted on the grammar's name list and checked
    there against SNAKE_TABLE (the doctest examples of codegen/case.py)."""
    if name in SNAKE_TABLE:
        return SNAKE_TABLE[name]
    s = re.sub(r"(?<=[a-z0-9])(?=[A-Z])|(?<=[A-Z])(?=[A-Z][a-z])", "_", name).lower()
    import builtins

    return s + "_" if s in dir(builtins) else s


class XField:
    """Expected field of one structure in one version (duck-types schema_walk.WField for KRef)."""

    def __init__(self, **kw):
        self.__dict__.update(kw)


class XStruct:
    """Expected structure in one version (duck-types schema_walk.WSchema for KRef)."""

    def __init__(self, name, fields, flexible, is_request_header, path):
        self.name, self.fields, self.flexible, self.is_request_header, self.path = name, fields, flexible, is_request_header, path
        self.cls = None

    @property
    def untagged(self):
        return [f for f in self.fields if f.tag is None]

    @property
    def tagged(self):
        return sorted((f for f in self.fields if f.tag is not None), key=lambda f: f.tag)


def parse_default(kind, raw, nullable):
    """Definition default (any accepted spelling) -> wire value; raw None = absent."""
    if raw is None:
        return {"bool": False, "float64": 0.0, "string": "", "bytes": b"", "records": None, "uuid": None}.get(kind, 0)
    if raw == "null":
        return None
    if kind == "bool":
        if isinstance(raw, bool):
            return raw
        if str(raw).lower() in ("true", "false"):
            return str(raw).lower() == "true"
        raise BadDefinition(f"bool default {raw!r}")
    if kind == "float64":
        return float(raw)
    if kind == "string":
        return str(raw)
    if kind in ("bytes", "records", "uuid"):
        raise BadDefinition(f"{kind} default {raw!r}")
    if isinstance(raw, bool):
        raise BadDefinition("bool default for int")
    if isinstance(raw, int):
        return raw
    return int(str(raw), 0)


def expected(defn: dict, version: int):
    """-> (top XStruct, {struct name: XStruct} of every structure visible in this version)."""
    valid = parse_range(defn["validVersions"])
    if not in_range(valid, version):
        raise BadDefinition("version outside validVersions")
    flexible = in_range(parse_range(defn.get("flexibleVersions", "none")), version)
    commons = {c["name"]: c for c in defn.get("commonStructs", [])}
    structs = {}
    is_req_hdr = defn["type"] == "header" and defn["name"] == "RequestHeader"

    def build(name, fields, path):
        if name in structs:
            return structs[name]
        xs = XStruct(name, [], flexible, is_req_hdr and name == defn["name"], path)
        structs[name] = xs
        for f in fields:
            vr = parse_range(f["versions"]) if "versions" in f else parse_range(f.get("taggedVersions"))
            if not in_range(vr, version):
                continue
            t = f["type"]
            array = t.startswith("[]")
            inner = t[2:] if array else t
            nullable = in_range(parse_range(f.get("nullableVersions")), version)
            tag = f["tag"] if in_range(parse_range(f.get("taggedVersions")), version) else None
            raw_default = f.get("default")
            nested = None
            if inner in PRIMS:
                kind = inner
            else:
                kind = None
                if "fields" in f:
                    nested = build(inner, f["fields"], f"{path}.{f['name']}")
                elif inner in commons:
                    nested = build(inner, commons[inner]["fields"], f"{path}.{f['name']}")
                elif inner in structs:
                    nested = structs[inner]
                else:
                    raise BadDefinition(f"unknown type {inner}")
            pyname = f["name"][:-2] if f["name"].endswith("Ms") and kind in ("int32", "int64") else f["name"]
            xf = XField(name=f["name"], pyname=snake(pyname), kafka_type=kind, array=array, nullable=nullable, item_nullable=False,
                        tag=tag, nested=nested, raw_default=raw_default, ignorable=bool(f.get("ignorable")),
                        has_default=raw_default is not None, struct_name=None if kind else inner, entity_type=f.get("entityType"))
            xs.fields.append(xf)
        return xs

    top = build(defn["name"], defn["fields"], "")
    return top, structs


def wire_default(f):
    """Wire-level default of an expected field, per the definition (KIP-482 zero values)."""
    if f.array:
        return None if f.raw_default == "null" else []
    if f.nested is not None:
        return None if f.raw_default == "null" else {g.name: wire_default(g) for g in f.nested.fields}
    return parse_default(f.kafka_type, f.raw_default, f.nullable)


def expected_header(defn, version):
    t = defn["type"]
    if t not in ("request", "response"):
        return None
    flexible = in_range(parse_range(defn.get("flexibleVersions", "none")), version)
    key = defn["apiKey"]
    if t == "request":
        v = 0 if (key == 7 and version == 0) else (2 if flexible else 1)
        return f"kio.schema.request_header.v{v}.header:RequestHeader"
    v = 0 if key == 18 else (1 if flexible else 0)
    return f"kio.schema.response_header.v{v}.header:ResponseHeader"


def api_package(defn):
    n = snake(defn["name"])
    for suf in ("_response", "_request"):
        if n.endswith(suf):
            n = n[: -len(suf)]
            break
    return n


def versions_of(defn):
    lo, hi = parse_range(defn["validVersions"])
    return list(range(lo, hi + 1))
