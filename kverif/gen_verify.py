"""Runs inside a scratch tree (PYTHONPATH=<scratch>/src:<scratch>:/verif): compare the generated
package with the independent reading (defspec) of every definition in the batch, structurally and on
the wire (KRef encodes from the DEFINITION, kio encodes the generated class's instance).
usage: python -m kverif.gen_verify <spec.json> <out.json>"""

from __future__ import annotations

import dataclasses
import importlib
import io
import json
import os
import sys

from . import bridge, defspec, refcodec, values
from .core import Acc, exc_name, short, to_json, violation

NULL_CONVENTION = ("string", "bytes", "records", "bool")


def convention_nullable(xf):
    """kio conventions that are deliberate and documented in codegen/parser.py, accepted here:
    uuid is always `| None` (all-zero == null); a tagged, ignorable field without default is optional with
    default None; an int64 ...Ms timestamp with default -1 is `| None`."""
    if xf.kafka_type == "uuid":
        return not xf.array
    if xf.tag is not None and xf.ignorable and xf.raw_default is None and xf.kafka_type in NULL_CONVENTION and not xf.array:
        return True
    # the same convention on an error-code field: annotated `ErrorCode | None`, but its default stays ErrorCode.none
    if xf.tag is not None and xf.ignorable and xf.raw_default is None and not xf.array and xf.kafka_type == "int16" \
            and xf.name in ("ErrorCode", "PartitionErrorCode"):
        return True
    return False


def shape(xf):
    """Shape of a definition field (for grouping wire-level disagreements)."""
    s = (xf.kafka_type or "struct") + ("[]" if xf.array else "") + ("?" if xf.nullable else "")
    if xf.tag is not None:
        s += "/tagged"
    if xf.ignorable:
        s += "/ignorable"
    if xf.has_default:
        s += "/default=null" if xf.raw_default == "null" else "/default"
    return s


def field_at(xs, where):
    """The definition field a layout position belongs to (first path component), else the only tagged one."""
    import re

    m = re.match(r"\.([A-Za-z0-9_]+)", where)
    if m:
        for f in xs.fields:
            if f.name == m.group(1):
                return f
    t = xs.tagged
    return t[0] if len(t) == 1 else None


def rename(xs, ws, w):
    """definition-side wire value (definition field names) -> kio-side (generated names), by position"""
    out = {}
    for xf, kf in zip(xs.fields, ws.fields):
        v = w[xf.name]
        if xf.nested is not None and v is not None:
            if xf.array:
                v = [rename(xf.nested, kf.nested, x) for x in v]
            else:
                v = rename(xf.nested, kf.nested, v)
        elif kf.kafka_type == "datetime_i64" and kf.nullable and v == -1:
            v = None  # kio presents the wire value -1 of a ...TimeMs field with default -1 as None
        out[kf.name] = v
    return out


def x_default(xf):
    """definition-side default with the accepted conventions applied"""
    if xf.tag is not None and xf.ignorable and xf.raw_default is None and not xf.array and xf.nested is None \
            and xf.kafka_type in ("string", "bytes", "records"):
        return None
    return defspec.wire_default(xf)


def check_struct(acc, xs, cls, ctx, order, seen=None):
    """structural comparison of one expected structure with the generated class; returns the kio-side
    WSchema or None"""
    from .schema_walk import SchemaContractError, wire_schema

    seen = set() if seen is None else seen
    if xs.name in seen:
        return True
    seen.add(xs.name)

    def bad(sig, exp, obs):
        acc.report(violation("C16", "structure", f"C16/structure/{sig}", ctx["file"], dict(ctx, struct=xs.name), exp, obs, order))
        return None

    if cls.__name__ != xs.name:
        return bad("class-name", xs.name, cls.__name__)
    try:
        ws = wire_schema(cls)
    except SchemaContractError as e:
        return bad("generated-class-breaks-metadata-contract", "documented contract", str(e)[:300])
    if ws.declared_flexible != xs.flexible:
        return bad("flexibility", str(xs.flexible), str(ws.declared_flexible))
    if [f.name for f in ws.fields] != [f.pyname for f in xs.fields]:
        return bad("field-names-or-order", str([f.pyname for f in xs.fields]), str([f.name for f in ws.fields]))
    for xf, kf in zip(xs.fields, ws.fields):
        what = f"{xs.name}.{xf.name}"
        if kf.array != xf.array:
            return bad("array-ness", f"{what}: array={xf.array}", f"array={kf.array}")
        if (kf.nested is not None) != (xf.nested is not None):
            return bad("struct-vs-primitive", f"{what}: struct={xf.nested is not None}", repr(kf.annotation))
        if kf.tag != xf.tag:
            return bad("tag", f"{what}: tag={xf.tag}", f"tag={kf.tag}")
        exp_null = xf.nullable or convention_nullable(xf)
        got_null = kf.nullable
        if kf.kafka_type == "datetime_i64" and xf.raw_default in ("-1", -1):
            exp_null = True
        if xf.kafka_type == "uuid" and not xf.array:
            got_null = exp_null = True
        if xf.kafka_type == "uuid" and xf.array:
            exp_null = xf.nullable
        if exp_null != got_null:
            if xf.array and xf.nested is None and xf.nullable and not kf.nullable:
                return bad("nullable-primitive-array-not-nullable", f"{what}: nullable array", repr(kf.annotation))
            return bad("nullability", f"{what}: nullable={exp_null}", f"{kf.annotation!r}")
        if xf.nested is not None:
            if check_struct(acc, xf.nested, kf.nested.cls, ctx, order, seen) is None:
                return None
        elif xf.has_default and not xf.array and not kf.has_default:
            return bad("definition-default-dropped", f"{what}: default {xf.raw_default!r}", "field without default")
    return ws


def wire_checks(acc, xs, ws, ctx, order, k):
    """KRef(definition) vs kio(generated class) over the k<=1 lattice of definition-side wire values, plus
    the all-defaults instance."""
    from kio.serial import entity_writer

    def bad(sig, case, exp, obs, o):
        acc.report(violation("C16", "wire", f"C16/wire/{sig}", ctx["file"], dict(ctx, **case), exp, obs, o))

    try:
        writer = entity_writer(ws.cls)
    except NotImplementedError as e:
        # kio.serial refuses loudly, with an explicit message, what it does not support (tagged records
        # fields): outside the supported subset, counted
        acc.add("unsupported_by_serial")
        acc.outcome(f"unsupported by kio.serial (NotImplementedError: {str(e)[:60]})")
        return
    except Exception as e:  # noqa: BLE001
        bad(f"writer-not-derivable/{exc_name(e)}", {}, "entity_writer(T) can be built for a generated class", repr(e)[:300], order)
        return
    n = 0
    ex = values.Explorer(xs, k, "value", 300, default_of=x_default)
    seen = set()
    for cost, w, edits in ex:
        h = hash(values.freeze(w))
        if h in seen:
            continue
        seen.add(h)
        n += 1
        try:
            ref = bytes(refcodec.encode(xs, w, x_default).buf)
        except refcodec.RefError:
            acc.add("model_rejects")
            continue
        try:
            inst = bridge.to_entity(ws, rename(xs, ws, w))
        except bridge.OutOfDomain:
            acc.add("out_of_domain")
            continue
        acc.add("evaluations")
        acc.add("wire_cases")
        b = io.BytesIO()
        try:
            writer(b, inst)
        except Exception as e:  # noqa: BLE001
            bad(f"encoder-raised/{exc_name(e)}", {"wire": to_json(w)}, ref.hex()[:300], repr(e)[:300], order + (n,))
            return
        if b.getvalue() != ref:
            from .props.codec import first_diff

            off = first_diff(b.getvalue(), ref)
            lay = refcodec.encode(xs, w, x_default)
            xf = field_at(xs, lay.where(off))
            bad(f"bytes-differ-from-definition/{shape(xf) if xf else 'unknown-field'}", {"wire": to_json(w)},
                f"{ref.hex()[:400]} (first difference at byte {off}: {lay.where(off)})", b.getvalue().hex()[:400], order + (n,))
            return
    # the other direction, with the tagged-section patterns a conforming peer may send (explicit defaults, explicit
    # null forms, unknown tags): the generated class's reader accepts them and re-encodes canonically
    try:
        from kio.serial import entity_reader

        reader = entity_reader(ws.cls)
    except NotImplementedError:
        reader = None
    except Exception as e:  # noqa: BLE001
        bad(f"reader-not-derivable/{exc_name(e)}", {}, "entity_reader(T) can be built for a generated class", repr(e)[:300], order)
        reader = None
    if reader is not None and xs.flexible:
        exw = values.Explorer(xs, 1, "wire", 300, default_of=x_default)
        m = 0
        for cost, w, edits in exw:
            if "__x__" not in json.dumps(to_json(w)) and cost:
                continue  # value deviations were covered above; here: base + tagged-section patterns
            m += 1
            try:
                ref = bytes(refcodec.encode(xs, w, x_default).buf)
                canon = bytes(refcodec.encode(xs, bridge.strip_x(w), x_default).buf)
                bridge.to_entity(ws, rename(xs, ws, bridge.strip_x(w)))
            except (refcodec.RefError, bridge.OutOfDomain):
                continue
            acc.add("evaluations")
            acc.add("decode_cases")
            try:
                dec = reader(io.BytesIO(ref))
                b2 = io.BytesIO()
                writer(b2, dec)
            except Exception as e:  # noqa: BLE001
                bad(f"decoder-rejects-conforming-encoding/{exc_name(e)}", {"wire": to_json(w)}, "decodes and re-encodes", repr(e)[:300], order + (m,))
                break
            # the decoded VALUES are the ones on the wire, absent tagged fields at the definition's default
            want = rename(xs, ws, bridge.strip_x(w))
            try:
                got = bridge.from_entity(ws, dec)
            except bridge.OutOfDomain as e:
                bad("decoded-value-ill-typed", {"wire": to_json(w)}, short(want, 300), str(e)[:300], order + (m,))
                break
            if not bridge.same_wire(got, want):
                bad("decoded-values-differ-from-definition", {"wire": to_json(w)}, short(want, 400), short(got, 400), order + (m,))
                break
            if b2.getvalue() != canon:
                bad("decode-then-encode-differs-from-canonical", {"wire": to_json(w)}, canon.hex()[:300], b2.getvalue().hex()[:300], order + (m,))
                break
    # all-defaults instance: required fields get their base value, the rest the class's defaults
    base = values.base_value(values.build(xs, "value", 300, default_of=x_default))
    kbase = rename(xs, ws, base)
    try:
        full = bridge.to_entity(ws, kbase)
        kw = {f.name: getattr(full, f.name) for f in ws.fields if not f.has_default}
        inst = ws.cls(**kw)
    except bridge.OutOfDomain:
        return
    except Exception as e:  # noqa: BLE001
        bad(f"all-defaults-instance-not-constructible/{exc_name(e)}", {}, "constructible", repr(e)[:300], order)
        return
    w = {}
    for xf, kf in zip(xs.fields, ws.fields):
        w[xf.name] = x_default(xf) if kf.has_default else base[xf.name]
    try:
        ref = bytes(refcodec.encode(xs, w, x_default).buf)
    except refcodec.RefError:
        return
    acc.add("evaluations")
    b = io.BytesIO()
    try:
        writer(b, inst)
    except Exception as e:  # noqa: BLE001
        bad(f"all-defaults-encoder-raised/{exc_name(e)}", {"wire": to_json(w)}, ref.hex()[:300], repr(e)[:300], order)
        return
    if b.getvalue() != ref:
        bad("defaults-differ-from-definition", {"wire": to_json(w), "instance": repr(inst)[:300]}, ref.hex()[:400], b.getvalue().hex()[:400], order)
    else:
        acc.outcome("all-defaults instance encodes as the definition's defaults")


def verify_definition(acc, fname, defn, rejected, k, n):
    pkg = defspec.api_package(defn)
    for version in defspec.versions_of(defn):
        ctx = {"file": fname, "version": version, "definition": defn}
        order = (n, version)
        acc.add("evaluations")
        acc.add("definition_versions")
        modname = f"kio.schema.{pkg}.v{version}.{defn['type']}"
        try:
            top, structs = defspec.expected(defn, version)
        except defspec.BadDefinition as e:
            acc.add("defspec_rejects")
            continue
        try:
            mod = importlib.import_module(modname)
        except Exception as e:  # noqa: BLE001
            acc.report(violation("C16", "import", f"C16/import/generated-module-does-not-import/{exc_name(e)}", fname, ctx,
                                 f"{modname} imports", repr(e)[:300], order))
            continue
        classes = {c.__name__: c for c in vars(mod).values() if isinstance(c, type) and dataclasses.is_dataclass(c) and c.__module__ == modname}
        if set(classes) != set(structs):
            acc.report(violation("C16", "structure", "C16/structure/class-set", fname, ctx, str(sorted(structs)), str(sorted(classes)), order))
            continue
        cls = classes[top.name]
        ws = check_struct(acc, top, cls, ctx, order)
        if ws is None:
            continue
        # class constants
        et = getattr(cls.__dict__.get("__type__"), "name", None)
        hdr = cls.__dict__.get("__header_schema__")
        got_hdr = f"{hdr.__module__}:{hdr.__name__}" if hdr is not None else None
        consts = (et, cls.__dict__.get("__version__"), cls.__dict__.get("__api_key__"), got_hdr)
        want = (defn["type"], version, defn.get("apiKey"), defspec.expected_header(defn, version))
        if consts != want:
            acc.report(violation("C16", "structure", "C16/structure/class-constants", fname, ctx, str(want), str(consts), order))
            continue
        for name, c in classes.items():
            if c is not cls and (getattr(c.__dict__.get("__type__"), "name", None) != "nested" or c.__dict__.get("__version__") != version
                                 or c.__dict__.get("__flexible__") != top.flexible):
                acc.report(violation("C16", "structure", "C16/structure/nested-class-constants", fname, dict(ctx, struct=name), "nested/version/flexible of the module", "differs", order))
        P = cls.__dataclass_params__
        if not (P.frozen and P.eq) or "__slots__" not in vars(cls):
            acc.report(violation("C16", "structure", "C16/structure/dataclass-options", fname, ctx, "frozen, slots", str(P), order))
            continue
        acc.outcome("structure as the definition states")
        wire_checks(acc, top, ws, ctx, order, k)


def main():
    spec = json.load(open(sys.argv[1]))
    acc = Acc(max_samples=3)
    rejected = spec.get("rejected", {})
    import kio

    assert os.path.realpath(kio.__file__).startswith(os.path.realpath(os.getcwd())), kio.__file__
    expected_modules = set()
    for n, (fname, defn) in enumerate(spec["definitions"]):
        if fname in rejected:
            acc.add("unsupported_definitions")
            acc.outcome(f"unsupported: {rejected[fname].split(':')[0]}")
            continue
        acc.add("programs")
        for v in defspec.versions_of(defn):
            expected_modules.add((defspec.api_package(defn), v, defn["type"]))
        try:
            verify_definition(acc, fname, defn, rejected, spec["k"], spec.get("offset", 0) + n)
        except Exception as e:  # noqa: BLE001
            import traceback

            acc.report(violation("C16", "harness", f"C16/verifier-crashed/{exc_name(e)}", fname, {"file": fname}, "verifier works", traceback.format_exc()[-800:], (n,)))
        if len(acc.samples) < 3:
            acc.sample({"definition": short(defn, 400)})
    # the generated index lists exactly the generated modules
    acc.add("evaluations")
    keys = {}
    for fname, defn in spec["definitions"]:
        if fname not in rejected and defn.get("type") in ("request", "response"):
            keys.setdefault(defn["apiKey"], set()).add(defspec.api_package(defn))
    try:
        from kio.schema import index as sindex

        got_keys = dict(sindex.api_key_map)
        for k, pk in sorted(keys.items()):
            if len(pk) != 1:
                continue  # the grammar reuses keys 7 and 18 for several APIs: which one wins is not judged
            if got_keys.get(k) != next(iter(pk)):
                acc.report(violation("C16", "index", "C16/index/api-key-map-misses-or-misnames-a-generated-api", "index", {"api_key": k, "batch": spec.get("offset", 0)},
                                     f"{k} -> {next(iter(pk))}", f"{k} -> {got_keys.get(k)!r}", (0, k)))
                break
        extra = sorted(set(got_keys) - set(keys))
        if extra:
            acc.report(violation("C16", "index", "C16/index/api-key-map-lists-unknown-keys", "index", {"batch": spec.get("offset", 0)}, "only generated keys", str(extra[:5]), (0,)))

        listed = {(n, v, t.name) for n, vm in sindex.schema_name_map.items() for v, tm in vm.items() for t in tm}
        if listed != expected_modules:
            acc.report(violation("C16", "index", "C16/index/does-not-list-exactly-the-generated-modules", "index", {"batch": spec.get("offset", 0)},
                                 f"{len(expected_modules)} modules", f"missing {sorted(expected_modules - listed)[:4]}, extra {sorted(listed - expected_modules)[:4]}", (0,)))
        else:
            acc.outcome("index lists exactly the generated modules")
    except Exception as e:  # noqa: BLE001
        acc.report(violation("C16", "index", f"C16/index/does-not-import/{exc_name(e)}", "index", {"batch": spec.get("offset", 0)}, "kio.schema.index imports", repr(e)[:300], (0,)))
    json.dump(acc.result(), open(sys.argv[2], "w"), default=str)


if __name__ == "__main__":
    main()
