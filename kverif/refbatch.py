"""Reference model of the Kafka v2 record batch (DESIGN.md appendix A): independent encoder,
decoder and table-driven CRC-32C.  Imports nothing from kio or crc32c.

Model values: batch = {"base_offset", "batch_length", "partition_leader_epoch", "magic", "crc",
"attributes", "last_offset_delta", "base_timestamp", "max_timestamp", "producer_id",
"producer_epoch", "base_sequence", "records": [record]}; record = {"attributes", "timestamp" (ms),
"offset", "key", "value", "headers": [[key, value], ...]} with absolute timestamp/offset."""

from __future__ import annotations

from .refcodec import RefError, RefUnderflow, Src, fixed, svarint, svarlong, unzigzag

_POLY = 0x82F63B78
_TABLE = []
for _i in range(256):
    _c = _i
    for _ in range(8):
        _c = (_c >> 1) ^ _POLY if _c & 1 else _c >> 1
    _TABLE.append(_c)


def crc32c(data: bytes) -> int:
    c = 0xFFFFFFFF
    for b in data:
        c = _TABLE[(c ^ b) & 0xFF] ^ (c >> 8)
    return c ^ 0xFFFFFFFF


assert crc32c(b"123456789") == 0xE3069283


def _nbytes(v):
    if v is None:
        return svarint(-1)
    return svarint(len(v)) + bytes(v)


def encode_record(r, base_timestamp, base_offset) -> bytes:
    body = fixed("int8", r["attributes"])
    body += svarlong(r["timestamp"] - base_timestamp)
    d = r["offset"] - base_offset
    if not -(2**31) <= d < 2**31:
        raise RefError("offset delta outside int32")
    body += svarint(d)
    body += _nbytes(r["key"]) + _nbytes(r["value"])
    body += svarint(len(r["headers"]))
    for k, v in r["headers"]:
        body += _nbytes(k) + _nbytes(v)
    return svarint(len(body)) + body


def encode_new_batch(nb) -> tuple[bytes, dict]:
    """nb = {"producer_id", "producer_epoch", "partition_leader_epoch", "base_sequence",
    "attributes", "records"}.  Derivations as Kafka's batch builder: base offset / timestamp from the
    first record, last offset delta from the last record, max timestamp = maximum."""
    recs = nb["records"]
    if not recs:
        raise RefError("empty batch")
    base_offset = recs[0]["offset"]
    base_ts = recs[0]["timestamp"]
    lod = recs[-1]["offset"] - base_offset
    if not -(2**31) <= lod < 2**31:
        raise RefError("last offset delta outside int32")
    max_ts = max(r["timestamp"] for r in recs)
    post = (
        fixed("int16", nb["attributes"])
        + fixed("int32", lod)
        + fixed("int64", base_ts)
        + fixed("int64", max_ts)
        + fixed("int64", nb["producer_id"])
        + fixed("int16", nb["producer_epoch"])
        + fixed("int32", nb["base_sequence"])
        + fixed("int32", len(recs))
        + b"".join(encode_record(r, base_ts, base_offset) for r in recs)
    )
    crc = crc32c(post)
    length = 4 + 1 + 4 + len(post)
    out = (
        fixed("int64", base_offset)
        + fixed("int32", length)
        + fixed("int32", nb["partition_leader_epoch"])
        + fixed("int8", 2)
        + fixed("uint32", crc)
        + post
    )
    model = {
        "base_offset": base_offset, "batch_length": length,
        "partition_leader_epoch": nb["partition_leader_epoch"], "magic": 2, "crc": crc,
        "attributes": nb["attributes"], "last_offset_delta": lod, "base_timestamp": base_ts,
        "max_timestamp": max_ts, "producer_id": nb["producer_id"],
        "producer_epoch": nb["producer_epoch"], "base_sequence": nb["base_sequence"],
        "records": [dict(r, headers=[list(h) for h in r["headers"]]) for r in recs],
    }  # fmt: skip
    return out, model


def encode_prepared(m) -> bytes:
    """Re-serialise a batch model verbatim: header fields (including length and crc) as given,
    records relative to the given base offset / base timestamp."""
    out = (
        fixed("int64", m["base_offset"]) + fixed("int32", m["batch_length"])
        + fixed("int32", m["partition_leader_epoch"]) + fixed("int8", m["magic"]) + fixed("uint32", m["crc"])
        + fixed("int16", m["attributes"]) + fixed("int32", m["last_offset_delta"])
        + fixed("int64", m["base_timestamp"]) + fixed("int64", m["max_timestamp"])
        + fixed("int64", m["producer_id"]) + fixed("int16", m["producer_epoch"])
        + fixed("int32", m["base_sequence"]) + fixed("int32", len(m["records"]))
    )
    for r in m["records"]:
        out += encode_record(r, m["base_timestamp"], m["base_offset"])
    return out


def encode_model(m) -> tuple[bytes, dict]:
    """Encode a batch from explicit header fields (base offset / timestamps / last offset delta as
    given) and records, computing length and CRC.  Allows zero records (what log compaction leaves)."""
    post = (
        fixed("int16", m["attributes"]) + fixed("int32", m["last_offset_delta"])
        + fixed("int64", m["base_timestamp"]) + fixed("int64", m["max_timestamp"])
        + fixed("int64", m["producer_id"]) + fixed("int16", m["producer_epoch"])
        + fixed("int32", m["base_sequence"]) + fixed("int32", len(m["records"]))
        + b"".join(encode_record(r, m["base_timestamp"], m["base_offset"]) for r in m["records"])
    )
    full = dict(m, magic=2, crc=crc32c(post), batch_length=9 + len(post))
    return encode_prepared(full), full


def _svarint(src: Src) -> int:
    return unzigzag(src.uvarint(5))


def _svarlong(src: Src) -> int:
    return unzigzag(src.uvarint(10))


def _read_nbytes(src: Src):
    n = _svarint(src)
    if n == -1:
        return None
    if n < 0:
        raise RefError("negative length")
    return src.take(n)


def decode_batch(data: bytes, check_crc=True) -> tuple[dict, int]:
    """-> (model, bytes consumed).  Verifies magic, length arithmetic, CRC coverage and that every
    record's declared length is exact."""
    src = Src(data)
    base_offset = src.fixed("int64")
    length = src.fixed("int32")
    if length < 0:
        raise RefError("negative batch length")
    body = Src(src.take(length))
    ple = body.fixed("int32")
    magic = body.fixed("int8")
    if magic != 2:
        raise RefError(f"magic {magic}")
    crc = body.fixed("uint32")
    post = body.data[body.pos :]
    if check_crc and crc32c(post) != crc:
        raise RefError("crc mismatch")
    m = {
        "base_offset": base_offset, "batch_length": length, "partition_leader_epoch": ple,
        "magic": magic, "crc": crc,
    }  # fmt: skip
    m["attributes"] = body.fixed("int16")
    m["last_offset_delta"] = body.fixed("int32")
    m["base_timestamp"] = body.fixed("int64")
    m["max_timestamp"] = body.fixed("int64")
    m["producer_id"] = body.fixed("int64")
    m["producer_epoch"] = body.fixed("int16")
    m["base_sequence"] = body.fixed("int32")
    n = body.fixed("int32")
    if n < 0:
        raise RefError("negative record count")
    recs = []
    for _ in range(n):
        rl = _svarint(body)
        if rl < 0:
            raise RefError("negative record length")
        rs = Src(body.take(rl))
        r = {"attributes": rs.fixed("int8")}
        r["timestamp"] = m["base_timestamp"] + _svarlong(rs)
        r["offset"] = base_offset + _svarint(rs)
        r["key"] = _read_nbytes(rs)
        r["value"] = _read_nbytes(rs)
        hc = _svarint(rs)
        if hc < 0:
            raise RefError("negative header count")
        r["headers"] = [[_read_nbytes(rs), _read_nbytes(rs)] for _ in range(hc)]
        if rs.pos != len(rs.data):
            raise RefError("record length does not match its content")
        recs.append(r)
    if body.pos != len(body.data):
        raise RefError("batch length does not match its content")
    m["records"] = recs
    return m, src.pos


__all__ = ["crc32c", "encode_new_batch", "decode_batch", "RefError", "RefUnderflow"]
