#!/bin/bash
# Nothing to build: the framework is plain Python run with /venv/bin/python (kio editable from /repo/src).
set -e
cd "$(dirname "$0")"
PYTHONPATH="$PWD" PYTHONDONTWRITEBYTECODE=1 /venv/bin/python - <<'P'
import kio, pydantic, crc32c, os
assert os.path.realpath(kio.__file__).startswith("/repo/src/"), kio.__file__
import kverif.core, kverif.refcodec
print("setup ok: kio from", os.path.dirname(kio.__file__))
P
