#!/bin/bash
# Run every registered quick check on the unchanged tree (rewrites all evidence files); prints one line each.
cd /verif
if [ -n "$(git -C /repo status --porcelain --untracked-files=no)" ]; then echo "/repo not clean"; exit 2; fi
for p in $(python3 -c "import json; print(' '.join(c['property_id'] for c in json.load(open('MANIFEST.json'))['checks']))") "$@"; do
  ./check $p --tier ${TIER:-quick} > /tmp/refresh_$p.log 2>&1; rc=$?
  echo "$p exit=$rc $(tail -1 /tmp/refresh_$p.log | cut -c1-200)"
done
