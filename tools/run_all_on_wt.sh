#!/bin/bash
# run_all_on_wt.sh <label> <worktree> [checks...]: run quick checks on an existing checkout (KVERIF_REPO), outputs under /tmp
label=$1; wt=$2; shift; shift
checks=${@:-C01 C02 C03 C04 C05 C06 C07 C08 C09 C10 C11 C12 C13 C14 C15 C16 C17 C18 C19}
for c in $checks; do
  KVERIF_REPO=$wt KVERIF_EVIDENCE_DIR=/tmp/kverif-ev-$label KVERIF_REPLAY_DIR=/tmp/kverif-ev-$label/replays /verif/check $c > /tmp/wtrun_${label}_$c.log 2>&1; rc=$?
  echo "$label $c exit=$rc :: $(grep -m1 -E 'HARNESS-ERROR' /tmp/wtrun_${label}_$c.log | cut -c1-200) $(grep -m1 'signature=' /tmp/wtrun_${label}_$c.log | cut -c1-160)"
done
