"""prep_themewave.py <suffix>: one scratch worktree + prompt per property, each with a THEME (kind of well-meant change)
and the instruction to stay away from the most obvious spot; stash-free instructions."""
import json, os, subprocess, sys
sfx = sys.argv[1]
THEMES = [
 "a performance optimisation: memoisation / caching, buffer or object reuse, a fast path for the common case, avoiding an allocation or a repeated computation",
 "a leniency or compatibility shim: being liberal towards a non-conforming peer, a newer broker release, an older client, or a convenience for callers passing slightly different types",
 "a refactoring that consolidates duplicated code paths (two similar functions merged into one helper, a loop rewritten as a comprehension, a condition simplified) and thereby shifts a boundary or drops a case",
 "a robustness / error-handling change: wrapping something in try/except/finally, converting exception types, adding cleanup, adding validation - that subtly changes what state is left behind or which error surfaces",
]
props = [json.loads(l) for l in open('/verif/properties.jsonl')]
H = ("Environment note for generator work: the upstream Kafka message-definition JSON files (schema/3.9.0/) are NOT in this sandbox and cannot be fetched. To exercise the generator "
     "write message-definition JSON files yourself (format of Apache Kafka's clients/src/main/resources/common/message/*.json) and call the codegen functions on them; work on a COPY of codegen/ and src/ "
     "inside your worktree if you run generators that write files. If your generator change would alter shipped modules under src/kio/schema, also apply the regenerated output by hand to those modules. ")
os.makedirs('/tmp/mut/prompts', exist_ok=True)
names = []
off = int(sys.argv[2]) if len(sys.argv) > 2 else 0
for i, p in enumerate(props):
    if os.environ.get("ONLY") and p['id'] not in os.environ["ONLY"].split(","):
        continue
    name = f"{p['id']}{sfx}"
    d = f"/tmp/mut/{name}"
    subprocess.run(['git', '-C', '/repo', 'worktree', 'add', '-q', '--detach', d, 'HEAD'], check=True)
    open(f'{d}/src/kio/_version.py', 'w').write('__version__ = "0.0.0"\n__version_tuple__ = (0, 0, 0)\n')
    theme = THEMES[(i + off) % len(THEMES)]
    if os.environ.get("ONLY") and p['id'] not in os.environ["ONLY"].split(","):
        continue
    extra = (f"The change must read as {theme}. Stay away from the single most obvious line for this property - assume a reviewer already guards that spot; "
             f"look for a second, less expected place in the code base through which the property can be broken (another module on the same path, a helper, a default, a cache, a constant, the generator or its output). "
             + (H if p['id'] in ('C04', 'C16') else ''))
    if os.environ.get("ANTI_BOUNDARY"):
        extra = ("Assume the people guarding this property check it by bounded enumeration: every entity class, boundary values only (0, +-1, the limits of each integer type, "
                 "lengths 0 / 1 / 126 / 127 / 128 / 16383 / 16384 / 32767, arrays of 0, 1, 2, 127 or 128 items, null / empty / default), and at most two fields deviating from a default "
                 "instance at a time; histories of at most three calls; two threads. Make your change manifest only OUTSIDE such a space - a mid-range value, a length or count that is no "
                 "boundary of the format, a combination of three or more fields, the fourth call, a value that is special only to your change - while still reading as a realistic slip or "
                 "well-meant change, not as an arbitrary magic number. " + (H if p['id'] in ('C04', 'C16') else ''))
    out = subprocess.run(['python3', '/verif/tools/mutprompt.py', p['id'], d, extra], capture_output=True, text=True).stdout
    out = out.replace("(verify both: use `git stash` / `git stash pop` to check the unchanged behaviour)",
                      f"(verify both; do NOT use `git stash`: use `git diff > /tmp/mut/{name}.patch; git checkout -- . ; <run>; git apply /tmp/mut/{name}.patch`)")
    open(f'/tmp/mut/prompts/{name}.txt', 'w').write(out)
    names.append(name)
print(" ".join(names))
