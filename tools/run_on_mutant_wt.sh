#!/bin/bash
# run_on_mutant_wt.sh <id> <check> [...] : like run_on_mutant.sh but in a throw-away worktree of /repo with the
# patch applied (KVERIF_REPO), so /repo is untouched and /verif/evidence is not overwritten; several can run in parallel.
id=$1; shift
patch=/verif/seeded/$id/patch.diff
wt=$(mktemp -d /tmp/kverif-mwt-XXXXXX)
for try in 1 2 3 4 5; do git -C /repo worktree add -q --detach $wt HEAD 2>/dev/null && break; sleep $((RANDOM % 3 + 1)); done
[ -e $wt/.git ] || { echo "$id: could not create a worktree"; exit 2; }
trap 'git -C /repo worktree remove --force '$wt' 2>/dev/null; rm -rf '$wt' /tmp/kverif-ev-'$id'' EXIT
cp /repo/src/kio/_version.py $wt/src/kio/_version.py 2>/dev/null
git -C $wt apply $patch || { echo "$id: patch does not apply to HEAD"; exit 2; }
for c in "$@"; do
  start=$(date +%s)
  KVERIF_REPO=$wt KVERIF_EVIDENCE_DIR=/tmp/kverif-ev-$id KVERIF_REPLAY_DIR=/tmp/kverif-ev-$id/replays /verif/check $c --tier ${TIER:-quick} > /tmp/mutrun_${id}_$c.log 2>&1; rc=$?
  echo "$id $c tier=${TIER:-quick} exit=$rc $(( $(date +%s) - start ))s :: $(grep -m1 -E 'HARNESS-ERROR' /tmp/mutrun_${id}_$c.log | cut -c1-160) $(grep -m1 'signature=' /tmp/mutrun_${id}_$c.log | cut -c1-150)"
done
