#!/bin/bash
# regress_mutants.sh: every seeded change must still be caught by every check listed in its meta.json ("caught_by").
# Runs in throw-away worktrees, 6 at a time.  Prints one line per (mutant, check); "MISSED" marks a regression.
cd /verif
python3 - <<'P' > /tmp/regress_jobs.txt
import glob, json
for f in sorted(glob.glob('/verif/seeded/*/meta.json')):
    m = json.load(open(f))
    if m.get('caught_by'):
        print(m['id'], ' '.join(m['caught_by']))
P
cat /tmp/regress_jobs.txt | xargs -P 6 -L 1 tools/run_on_mutant_wt.sh 2>&1 | awk '{ if ($4 != "exit=1") print "MISSED", $0; else print $1, $2, $4 }'
