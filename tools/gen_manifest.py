"""Regenerate /verif/MANIFEST.json from the table below (single source of truth for the interface)."""
import json
import os
import sys

sys.path.insert(0, os.path.dirname(os.path.dirname(os.path.abspath(__file__))))
from kverif.__main__ import REGISTRY  # noqa: E402

KREF = ("Trusted: the reference codec KRef (kverif/refcodec.py, anchored by hand-assembled vectors in "
        "kverif/vectors.py), the alphabets and bounds stated in the evidence, CPython 3.12.")
BATCH = ("Trusted: the reference batch model kverif/refbatch.py (own zig-zag and table-driven CRC-32C, validated "
         "on the standard check value and on four real-broker batches), alphabets and bounds in the evidence.")
T = {
    "C01": ("model_checking", "Every state of the bounded edit lattice (k deviations from a base instance over boundary alphabets) of every one of the 1629 entity classes is encoded and decoded on the real code in 4 stream contexts; equality, type and exact consumption are checked on each state.", KREF,
            "explicit-state enumeration of the bounded instance lattice on the real codec", "4/C01"),
    "C02": ("model_checking", "Same state space as C01; each state's bytes from kio are compared with the independent reference encoder; plus a k=2 sweep of one synthetic class per dispatch row.", KREF,
            "explicit-state enumeration of the bounded instance lattice, reference-model comparison per state", "4/C02"),
    "C03": ("model_checking", "Wire-first exploration: every wire value within k deviations, including explicit-default and unknown-tag patterns at every flexible struct, is encoded by the reference encoder and decoded by kio; values and consumed length compared.", KREF,
            "explicit-state enumeration of bounded wire values x tagged-section patterns, reference-model comparison", "4/C03"),
    "C04": ("exploration", "All 666 modules / 1629 classes / 5094 fields / error codes / both index maps of the shipped package are compared with the output of the CURRENT generator on the 186 pinned definitions (scratch tree), with the pinned description of the baseline tree, and the tree must still reconstruct to the pinned definitions; thorough: regeneration with each definition removed.",
            "Trusted: pins/definitions-3.9.0 (reconstructed from the baseline tree because the upstream JSON files cannot be fetched; the real generator reproduces the baseline tree from them exactly), pins/schema-3.9.0.describe.json.gz, pins/kafka-3.9.0-apis.json. Fidelity to the true upstream files beyond that is not claimed.",
            "exhaustive comparison over the finite configuration space: generator run on pinned programs vs shipped tree", "4/C04"),
    "C16": ("exploration", "Every sentence of a bounded grammar of message definitions (quick: fixed sub-grammar of ~1200; thorough: ~31000) and the 186 real definitions are pushed through the CURRENT generator in scratch trees; for every declared version the generated classes are compared with an independent reading of the definition structurally and on the wire (all k<=1 values: KRef(definition) == kio(generated class)), all-defaults instance, generated index.",
            "Trusted: defspec (kverif/defspec.py) as the independent reading of the definition format, KRef; accepted documented kio conventions (uuid always Optional, tagged+ignorable+no-default fields Optional, ...Ms renames). The supported subset is decided by the generator raising; the set of rejected sentences is pinned. Tagged nullable structs are outside the grammar (wire form not anchored).",
            "bounded-exhaustive enumeration of programs (definition grammar) through the real generator, reference-model comparison", "4/C16"),
    "C05": ("model_checking", "Wire-first exploration of canonical encodings over lossy-prone alphabets: decode then encode must reproduce the bytes; decode/encode idempotent on every accepted (also non-canonical) input.", KREF,
            "explicit-state enumeration of bounded wire values, byte-identity oracle", "4/C05"),
    "C06": ("fault_enumeration", "For every class and every instance within k deviations, every strict prefix of the encoding is fed to the real decoder on two source kinds; the outcome must be exactly BufferUnderflow within a deterministic step budget.",
            "Trusted: the step budget (sys.monitoring PY_START+JUMP counts) as a stand-in for 'never blocks or loops'; strings capped at 130 bytes so that every cut position is enumerated.",
            "exhaustive crash-point (truncation) enumeration on the real decoder", "4/C06"),
    "C07": ("model_checking", "Part A: every class x k<=1 instance x 3 sink kinds x 3 source kinds with call-log invariants. Part B: explicit-state exploration of all message sequences up to depth 3/4 over an 18-letter alphabet on one stream; state = stream content; invariant = content equals the reference concatenation and decodes back in order ending exactly at the trailing bytes.", KREF,
            "explicit-state exploration of message histories on one stream + exhaustive sink/source-kind sweep", "4/C07"),
    "C08": ("exploration", "Exhaustive sweep of all 646 payload classes and every class reachable from them: header schema per the independently restated Kafka rule applied to a pinned API table, api key / flexibility agreement, request/response lookups mutually inverse on classes and instances.",
            "Trusted: pins/kafka-3.9.0-apis.json (derived from the baseline tree, spot-checked against the 3.9.0 protocol tables). Finite configuration space enumerated completely.",
            "exhaustive enumeration of the finite configuration space (all payload classes)", "4/C08"),
    "C09": ("exploration", "All 666 index entries x every applicable lookup function, index vs disk, key bijection, every near miss one step outside the valid set plus odd values, codegen's build_index on the current package, and a 2-thread cold-import exploration (thread A paused at each import stage).",
            "Trusted: pinned API table; the cold-import harness models 'B blocks on the import lock' by a 0.3 s wait before resuming A (either outcome is a valid schedule).",
            "exhaustive enumeration of index entries and near misses + bounded schedule exploration of cold lookups", "4/C09"),
    "C11": ("exploration", "Each of the 66 public primitive readers/writers over exhaustive small domains (all 8/16-bit values, all varints below 2^17/2^21, all byte strings up to 2/3 bytes as varint input, all int16 error codes) and boundary lattices, against independent primitive codecs; out-of-domain writes must raise and write nothing.",
            "Trusted: the independent primitive codecs (int.to_bytes, explicit varint loops in kverif). 'Random values beyond' in the property text is replaced by power-of-two neighbourhoods.",
            "exhaustive enumeration of small value domains and boundary lattices per primitive", "4/C11"),
    "C12": ("exploration", "Each primitive type over boundary lattices (powers of two +-2 up to 2^71, all of [-2^17, 2^17] for 8/16-bit types, float classes, duration/timestamp limits +-1us/1ms, wrong Python types) against an independent membership predicate; constructor identity/TypeError; nesting; writer acceptance and read-back; whole pass in two orders in separate processes.",
            "Trusted: the independent predicates written from the type docstrings / ranges at the baseline.",
            "exhaustive enumeration of boundary lattices per type, in two histories (orders)", "4/C12"),
    "C13": ("exploration", "All 5094 fields of all 1629 classes against an independent type table; nullability, arrays, defaults, tags; two independent readings of the description (E1 vs kio's introspection) must agree; reader and writer derivable.",
            "Trusted: the type table in kverif/props/config.py. Finite configuration space enumerated completely.",
            "exhaustive enumeration of the finite configuration space (all fields)", "4/C13"),
    "C14": ("exploration", "All 666 version modules (path vs class constants; every class defined in or reachable from the module) and all 186 families (contiguity, monotone flexibility, key constant and unique, request = response versions, pinned API table).",
            "Trusted: pinned API table. Finite configuration space enumerated completely.",
            "exhaustive enumeration of the finite configuration space (all modules and families)", "4/C14"),
    "C15": ("exploration", "Static dataclass options of all 1633 classes; for every k<=1 (thorough: k<=2) instance, its decoded copy, what the decoder returns from a short-reading raw source and the decoded copy of one 2 MiB-payload instance per string/bytes/records slot: mutation attempts on every field, equality/hash along every deviation edge, copy/deepcopy/replace/pickle.",
            "Trusted: Python's dataclass/pickle machinery; instances from the E4 alphabets.",
            "bounded-exhaustive enumeration of instances x mutation/copy operations", "4/C15"),
    "C19": ("model_checking", "Histories: every operation sequence up to depth 2/3 (+ all depth-3/4 ending in a use) over a 57-letter alphabet on a colliding class set, each rebuilt from cleared caches, plus abstract-state BFS to a fixpoint; stream failure at every call index for every class; 2-thread schedules of cold/warm creation and use at source-line granularity with preemption bound 1/2 (thorough: opcode granularity in scratch-buffer frames).",
            KREF + " C-level code is atomic under the GIL; no free-running race detector exists for CPython.",
            "explicit-state history BFS + exhaustive fault-position enumeration + preemption-bounded schedule DFS on real threads", "4/C19"),
    "C10": ("fault_enumeration", "For every class: all byte strings up to a small length and the complete 1-fault (thorough: critical 2-fault) neighbourhood of valid encodings are decoded on the real decoder under a step budget; outcome class, position and re-encodability judged.",
            "Trusted: KRef layout to aim faults; step budget as stand-in for 'time proportional to input'. 'Random byte strings' is replaced by exhaustive short strings and fault neighbourhoods; long random inputs are not claimed.",
            "exhaustive fault-sequence enumeration (short inputs, 1-/2-byte corruptions) on the real decoder", "4/C10"),
    "C17": ("model_checking", "Every NewRecordBatch within k<=2/3 deviations of a base batch (1-3 records, boundary offsets/timestamps/payloads/headers/ints) is written by kio and decoded and re-encoded by the independent batch model; fields, CRC coverage, length and bytes compared.", BATCH,
            "explicit-state enumeration of bounded batch values, reference-model comparison", "4/C17"),
    "C18": ("fault_enumeration", "Every reference-encoded batch within k deviations plus four real-broker batches: identity read, rewrite identity; every single-bit flip from the CRC field to the end, every truncation point and wrong magic must make read_batch raise.", BATCH,
            "exhaustive fault enumeration (all single-bit flips, all truncations) against the real batch reader", "4/C18"),
}
NA_REASON = "check not built yet in this session (work in progress, see DESIGN.md section 10); not claimed"


def main():
    checks = []
    for pid in sorted(T):
        if pid not in REGISTRY:
            continue
        cat, text, note, tech, ref = T[pid]
        checks.append({
            "property_id": pid,
            "quick_cmd": f"./check {pid} --tier quick",
            "thorough_cmd": f"./check {pid} --tier thorough",
            "evidence_file": f"/verif/evidence/{pid}.json",
            "replay_cmd_template": f"./check {pid} --replay {{path}}",
            "engine": "kverif",
            "level_claimed": {"category": cat, "text": text, "design_ref": ref},
            "level_note": note,
            "technique": tech,
        })
    claimed = {c["property_id"] for c in checks}
    allp = [json.loads(l)["id"] for l in open("/verif/properties.jsonl")]
    fixes = []
    opens = []
    for line in open("/verif/known_findings.jsonl"):
        line = line.strip()
        if line and not line.startswith("#"):
            r = json.loads(line)
            if r.get("status") == "fixed" and r["commit"] not in fixes:
                fixes.append(r["commit"])
            if r.get("status") == "open":
                opens.append(f"{r['id']} ({r['property']})")
    m = {
        "version": 1,
        "setup_cmd": "./setup.sh",
        "hooks": {
            "guard": "KIO_VERIF",
            "enable": "no hooks are compiled into /repo; checks instrument from outside (sys.settrace / sys.monitoring, duck-typed streams, cache_clear); ./check exports KIO_VERIF=1 for uniformity",
            "baseline_off_cmd": "cd /repo && /venv/bin/python -m pytest -ra -q -p no:cacheprovider --timeout=900 --continue-on-collection-errors",
            "source_commits": [],
            "add_only": True,
        },
        "engines": [{
            "name": "kverif", "path": "/verif/kverif", "serves_properties": sorted(claimed),
            "kind_free_text": "hand-written bounded-exhaustive explorers (value/wire edit lattice, fault enumeration, history BFS, schedule DFS) driving the real kio code, judged by independent reference models (KRef, refbatch)",
        }],
        "checks": checks,
        "notes": "See DESIGN.md. Genuine defects repaired in /repo by 'fix:' commits " + " ".join(fixes) + " (listed as fixed in known_findings.jsonl); open findings reported as KNOWN-FINDING lines: " + ", ".join(opens) + ".",
        "not_applicable": [{"property_id": p, "reason": NA_REASON} for p in allp if p not in claimed],
    }
    json.dump(m, open("/verif/MANIFEST.json", "w"), indent=1)
    print("claimed:", sorted(claimed))


main()
