"""automut.py - systematic small mutations of kio's source, to find what the checks do NOT see.

  automut.py list  <relpath> [...]                 print the mutants (id, line, rule, new line) of the given files
  automut.py run   <out.jsonl> <nworkers> <stride> <relpath> [...]
        every stride-th mutant: written into a throw-away worktree of /repo (never /repo itself), the relevant quick
        checks run in order of cost until one reports a violation; result lines appended to out.jsonl.

This is a tool for the author (survivors are read by hand: equivalent change or a gap of the checks); it is not one of
the registered checks and decides no property.  Mutation operators are textual, on one line each: comparison
boundaries, equality flips, and/or, is/is not None, +-1 on small integer literals, True/False, dropped `not`."""
import json
import os
import py_compile
import re
import subprocess
import sys
import tempfile

RULES = [
    (r"(?<![<>=!-])<=(?!=)", "<"), (r"(?<![<>=!-])<(?![<=])", "<="), (r"(?<![<>=!-])>=(?!=)", ">"), (r"(?<![<>=!-])>(?![>=])", ">="),
    (r"==", "!="), (r"!=", "=="), (r"\band\b", "or"), (r"\bor\b", "and"), (r"\bis not None\b", "is None"), (r"\bis None\b", "is not None"),
    (r"\bnot (?!None)", ""), (r"\bTrue\b", "False"), (r"\bFalse\b", "True"),
    (r"(?<![\w.])(\d+)(?![\w.])", "+1"), (r"(?<![\w.])([1-9]\d*)(?![\w.])", "-1"), (r"(?<![\w.])0x([0-9a-fA-F]+)\b", "hex>>1"),
    (r"\+ 1\b", "+ 0"), (r"- 1\b", "- 0"), (r"\belif\b", "if"),
]

CHECKS_FOR = [
    ("src/kio/serial/", "C11 C13 C07 C12 C15 C01 C02 C03 C05 C06 C19 C10 C16"),
    ("src/kio/records/", "C18 C17 C15"),
    ("src/kio/static/", "C11 C12 C13 C08 C09 C15 C01 C02 C03 C05 C16"),
    ("src/kio/index.py", "C08 C09"),
    ("src/kio/_utils.py", "C13 C19 C01"),
    ("codegen/", "C16 C04 C09"),
]


def mutants(rel):
    src = open(os.path.join("/repo", rel)).read().split("\n")
    out = []
    in_doc = False
    for i, line in enumerate(src):
        s = line.strip()
        if s.count('"""') == 1:
            in_doc = not in_doc
            continue
        if in_doc or not s or s.startswith("#") or s.startswith(("import ", "from ", "@", '"""', "'")) or s.startswith(('"', "'")):
            continue
        code = line.split("  #")[0]
        if re.match(r"\s*(def |class )", code):
            continue
        for pat, rep in RULES:
            for m in re.finditer(pat, code):
                # leave string literals and annotations alone (cheap test: an odd number of quotes before the match)
                before = code[: m.start()]
                if before.count('"') % 2 or before.count("'") % 2:
                    continue
                if rep == "+1":
                    new = str(int(m.group(1)) + 1)
                elif rep == "-1":
                    new = str(int(m.group(1)) - 1)
                elif rep == "hex>>1":
                    new = hex(int(m.group(1), 16) >> 1)
                else:
                    new = rep
                nl = code[: m.start()] + new + code[m.end():] + line[len(code):]
                if nl != line:
                    out.append({"file": rel, "line": i + 1, "rule": f"{pat} -> {rep}", "old": line.strip(), "new": nl.strip(), "_new_line": nl})
    for n, m in enumerate(out):
        m["id"] = f"{rel}:{m['line']}:{n}"
    return out


def checks_for(rel):
    for prefix, cs in CHECKS_FOR:
        if rel.startswith(prefix):
            return cs.split()
    return []


def worker(wid, jobs, outpath):
    wt = tempfile.mkdtemp(prefix=f"kverif-am{wid}-", dir="/tmp")
    subprocess.run(["git", "-C", "/repo", "worktree", "add", "-q", "--detach", wt, "HEAD"], check=True)
    subprocess.run(["cp", "/repo/src/kio/_version.py", f"{wt}/src/kio/_version.py"], check=True)
    env = dict(os.environ, KVERIF_REPO=wt, KVERIF_EVIDENCE_DIR=f"/tmp/kverif-ev-am{wid}", KVERIF_REPLAY_DIR=f"/tmp/kverif-ev-am{wid}/replays")
    try:
        for m in jobs:
            path = os.path.join(wt, m["file"])
            orig = open(path).read()
            lines = orig.split("\n")
            lines[m["line"] - 1] = m["_new_line"]
            open(path, "w").write("\n".join(lines))
            res = {k: v for k, v in m.items() if not k.startswith("_")}
            try:
                compile(open(path).read(), path, "exec")
            except Exception:  # noqa: BLE001
                res["outcome"] = "does-not-compile"
            else:
                imp = subprocess.run(["/venv/bin/python", "-c", "import kio.serial, kio.index, kio.records.readers, kio.records.writers, kio.schema.metadata.v12.request"],
                                     env=dict(env, PYTHONPATH=f"{wt}/src"), capture_output=True, text=True)
                if imp.returncode != 0 and not m["file"].startswith("codegen/"):
                    res["outcome"] = "does-not-import"
                else:
                    res["outcome"] = "SURVIVED"
                    res["ran"] = []
                    for c in checks_for(m["file"]):
                        p = subprocess.run(["/verif/check", c], env=env, capture_output=True, text=True)
                        res["ran"].append(c)
                        if p.returncode == 1:
                            sig = re.search(r"signature=(\S+)", p.stdout)
                            res["outcome"] = f"caught:{c}"
                            res["signature"] = sig.group(1) if sig else None
                            break
                        if p.returncode != 0:
                            res["outcome"] = f"harness-error:{c}"
                            res["detail"] = (p.stdout + p.stderr)[-600:]
                            break
            open(path, "w").write(orig)
            with open(outpath, "a") as f:
                f.write(json.dumps(res) + "\n")
    finally:
        subprocess.run(["git", "-C", "/repo", "worktree", "remove", "--force", wt])
        subprocess.run(["rm", "-rf", wt, f"/tmp/kverif-ev-am{wid}"])


def main():
    if sys.argv[1] == "list":
        for rel in sys.argv[2:]:
            for m in mutants(rel):
                print(m["id"], "|", m["old"], "=>", m["new"])
        return
    out, nw, stride = sys.argv[2], int(sys.argv[3]), int(sys.argv[4])
    allm = []
    for rel in sys.argv[5:]:
        allm += mutants(rel)
    done = set()
    if os.path.exists(out):
        done = {json.loads(l)["id"] for l in open(out)}
    todo = [m for i, m in enumerate(allm) if i % stride == 0 and m["id"] not in done]
    print(f"{len(allm)} mutants, {len(todo)} to run", flush=True)
    pids = []
    for w in range(nw):
        pid = os.fork()
        if pid == 0:
            worker(w, todo[w::nw], out)
            os._exit(0)
        pids.append(pid)
    for pid in pids:
        os.waitpid(pid, 0)


if __name__ == "__main__":
    main()
