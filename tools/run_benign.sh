#!/bin/bash
# run_benign.sh: every behaviour-preserving refactoring under /verif/benign must leave all 19 quick checks silent.
# One throw-away worktree per refactoring, 3 at a time; prints only lines with a non-zero exit.
cd /verif
one() {
  b=$1; wt=$(mktemp -d /tmp/kverif-bwt-XXXXXX)
  for try in 1 2 3 4 5; do git -C /repo worktree add -q --detach $wt HEAD 2>/dev/null && break; sleep $((RANDOM % 3 + 1)); done
  cp /repo/src/kio/_version.py $wt/src/kio/_version.py
  git -C $wt apply /verif/benign/$b/patch.diff || { echo "$b: patch does not apply"; }
  tools/run_all_on_wt.sh $b $wt > /verif/benign/$b/checks.log 2>&1
  git -C /repo worktree remove --force $wt; rm -rf $wt /tmp/kverif-ev-$b
  echo "$b: $(grep -c 'exit=0' /verif/benign/$b/checks.log) silent, $(grep -vc 'exit=0' /verif/benign/$b/checks.log) not silent"
  grep -v 'exit=0' /verif/benign/$b/checks.log
}
export -f one
ls -d benign/B* | xargs -n1 basename | xargs -P 3 -I{} bash -c 'one {}'
