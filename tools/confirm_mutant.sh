#!/bin/bash
# confirm_mutant.sh <id> <worktree> <property> : confirm a sub-agent's change independently and file it
# under /verif/seeded/<id>/ (patch.diff, demo, confirm.log).  Runs in the worktree only.
set -u
id=$1; wt=$2; prop=$3
out=/verif/seeded/$id; mkdir -p $out
cd $wt || exit 2
demo=$(ls demo_*.py 2>/dev/null | head -1)
[ -f src/kio/_version.py ] || printf '__version__ = "0.0.0"\n__version_tuple__ = (0, 0, 0)\n' > src/kio/_version.py
git diff > $out/patch.diff
cp "$demo" $out/ 2>/dev/null
export PYTHONPATH=$wt/src:$wt PYTHONDONTWRITEBYTECODE=1
{
echo "== $id property=$prop worktree=$wt base=$(git rev-parse --short HEAD)"
echo "== files changed:"; git diff --stat | tail -5
echo "== demo WITH change:"; timeout 600 /venv/bin/python $demo > $out/demo_with.txt 2>&1; w=$?; tail -3 $out/demo_with.txt; echo "exit=$w"
git diff > /tmp/cm_$id.patch; git apply -R /tmp/cm_$id.patch
echo "== demo WITHOUT change:"; timeout 600 /venv/bin/python $demo > $out/demo_without.txt 2>&1; wo=$?; tail -3 $out/demo_without.txt; echo "exit=$wo"
git apply /tmp/cm_$id.patch
echo "== suite WITH change:"; /venv/bin/python -m pytest -q -p no:cacheprovider -k "not _java" --deselect tests/test_integration.py --timeout=900 2>&1 | grep -E "^[0-9]+ passed|passed|failed" | tail -1
echo "== verdict: demo_with=$w demo_without=$wo"
} > $out/confirm.log 2>&1
rm -f $out/demo_with.txt $out/demo_without.txt
tail -4 $out/confirm.log
