"""prep_wave.py <suffix> <prop> [<prop> ...]: create scratch worktrees /tmp/mut/<prop><suffix> and prompts listing the
ideas already filed under /verif/seeded for that property (so that agents look elsewhere)."""
import glob, json, os, subprocess, sys
sfx, props = sys.argv[1], sys.argv[2:]
prior = {}
for f in sorted(glob.glob('/verif/seeded/*/meta.json')):
    m = json.load(open(f)); prior.setdefault(m['breaks_property'], []).append(m['summary'])
H = ("Environment note for generator work: the upstream Kafka message-definition JSON files (schema/3.9.0/) are NOT in this sandbox and cannot be fetched. "
     "To exercise the generator you must write message-definition JSON files yourself (same format as Apache Kafka's clients/src/main/resources/common/message/*.json) and call the codegen "
     "functions on them (read codegen/__main__.py, codegen/generate_schema.py, codegen/parser.py); work on a COPY of codegen/ and src/ inside your worktree if you run generators that write files, "
     "since they derive output paths from their own location. ")
os.makedirs('/tmp/mut/prompts', exist_ok=True)
for p in props:
    d = f'/tmp/mut/{p}{sfx}'
    subprocess.run(['git', '-C', '/repo', 'worktree', 'add', '-q', '--detach', d, 'HEAD'], check=True)
    open(f'{d}/src/kio/_version.py', 'w').write('__version__ = "0.0.0"\n__version_tuple__ = (0, 0, 0)\n')
    extra = (H if p in ('C04', 'C16', 'C13', 'C14') else '') + (
        f"Do not use `git stash` (shared between worktrees); to test without your change use `git diff > /tmp/mut/{p}{sfx}.patch; git checkout -- . ; <run>; "
        f"git apply /tmp/mut/{p}{sfx}.patch`. Do not `git add` your demo file. Other engineers already proposed the following ideas, so propose something DIFFERENT in mechanism and location: "
        + " | ".join(prior.get(p, [])))
    out = subprocess.run(['python3', '/verif/tools/mutprompt.py', p, d, extra], capture_output=True, text=True).stdout
    open(f'/tmp/mut/prompts/{p}{sfx}.txt', 'w').write(out)
print("prepared", [p + sfx for p in props])
