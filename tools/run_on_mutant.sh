#!/bin/bash
# run_on_mutant.sh <id> <check> [<check> ...] : apply /verif/seeded/<id>/patch.diff to /repo, run the quick
# checks, always revert.  Prints one line per check.
id=$1; shift
patch=/verif/seeded/$id/patch.diff
cd /repo || exit 2
if [ -n "$(git status --porcelain --untracked-files=no)" ]; then echo "/repo not clean"; exit 2; fi
git apply --check $patch || { echo "patch does not apply"; exit 2; }
git apply $patch
trap 'cd /repo && git apply -R '$patch' 2>/dev/null; git -C /repo checkout -- . ' EXIT
tier=${TIER:-quick}
for c in "$@"; do
  start=$(date +%s)
  /verif/check $c --tier $tier > /tmp/mutrun_$id_$c.log 2>&1; rc=$?
  echo "$id $c tier=$tier exit=$rc $(( $(date +%s) - start ))s :: $(grep -m1 -E 'VIOLATION|HARNESS-ERROR' /tmp/mutrun_$id_$c.log | cut -c1-100) $(grep -m1 'signature=' /tmp/mutrun_$id_$c.log | cut -c1-120)"
done
