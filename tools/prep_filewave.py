"""prep_filewave.py <suffix>: one scratch worktree + prompt per source file; the agent gets all 19 property statements,
must put its change into the assigned file and says which property it breaks."""
import json, os, subprocess, sys
sfx = sys.argv[1]
FILES = ["src/kio/serial/_introspect.py", "src/kio/serial/_implicit_defaults.py", "src/kio/serial/_shared.py and src/kio/serial/errors.py",
         "src/kio/static/_phantom.py", "src/kio/static/primitive.py", "src/kio/static/protocol.py and src/kio/static/constants.py",
         "src/kio/index.py", "src/kio/_utils.py and src/kio/serial/__init__.py", "src/kio/records/schema.py", "src/kio/records/readers.py",
         "src/kio/records/writers.py", "src/kio/schema/errors.py or codegen/generate_error_codes.py", "src/kio/schema/types.py or the custom-type part of codegen/generate_schema.py",
         "codegen/case.py", "codegen/versions.py", "codegen/parser.py", "codegen/generate_index.py or codegen/introspect_schema.py",
         "codegen/header_schema.py", "src/kio/serial/_serialize.py", "src/kio/serial/_parse.py", "src/kio/serial/writers.py", "src/kio/serial/readers.py"]
props = [json.loads(l) for l in open('/verif/properties.jsonl')]
allp = "\n".join(f"- {p['id']} {p['title']}: {p['statement']}" for p in props)
H = ("Environment note for generator work: the upstream Kafka message-definition JSON files (schema/3.9.0/) are NOT in this sandbox and cannot be fetched. To exercise the generator "
     "write message-definition JSON files yourself (format of Apache Kafka's clients/src/main/resources/common/message/*.json) and call the codegen functions on them; work on a COPY of codegen/ and src/ "
     "inside your worktree if you run generators that write files. If your generator change would alter shipped modules under src/kio/schema, also apply the regenerated output by hand to those modules. ")
names = []
for i, f in enumerate(FILES):
    name = f"X{i:02d}{sfx}"
    d = f"/tmp/mut/{name}"
    subprocess.run(['git', '-C', '/repo', 'worktree', 'add', '-q', '--detach', d, 'HEAD'], check=True)
    open(f'{d}/src/kio/_version.py', 'w').write('__version__ = "0.0.0"\n__version_tuple__ = (0, 0, 0)\n')
    base = subprocess.run(['python3', '/verif/tools/mutprompt.py', 'C01', d, ''], capture_output=True, text=True).stdout
    start = base.index('The property under attack'); end = base.index('Your task:')
    block = (f"Below are the semantic properties users of this library rely on.\n{allp}\n\nYour change MUST be made in: {f} (and nowhere else, except regenerated output where noted). "
             f"Pick the property (one of the above) that your change breaks and say which. {H if 'codegen' in f else ''}"
             f"Do not use `git stash`; to test without your change use `git diff > /tmp/mut/{name}.patch; git checkout -- . ; <run>; git apply /tmp/mut/{name}.patch`. Do not `git add` your demo file.\n\n")
    out = base[:start] + block + base[end:]
    out = out.replace('demo_c01.py', f'demo_{name.lower()}.py').replace("that BREAKS this property", "that BREAKS the property you picked")
    open(f'/tmp/mut/prompts/{name}.txt', 'w').write(out)
    names.append(name)
print(" ".join(names))
