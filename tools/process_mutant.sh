#!/bin/bash
# process_mutant.sh <name e.g. C01g> <property> <check> [...]: confirm the change in its scratch worktree, file it under
# /verif/seeded/m-<name>, run the given quick checks against it in a throw-away worktree.
name=$1; prop=$2; shift; shift
tools/confirm_mutant.sh m-$name /tmp/mut/$name $prop > /tmp/confirm_$name.out 2>&1
echo "m-$name $(grep verdict /tmp/confirm_$name.out) $(grep passed /tmp/confirm_$name.out | tail -1 | cut -c1-12)"
tools/run_on_mutant_wt.sh m-$name "$@"
