#!/bin/bash
# reconfirm.sh <id>: independent confirmation of a seeded change in a fresh worktree of /repo HEAD (no git stash):
# demo passes without the change, fails with it, and the full non-java suite passes with it.  Rewrites confirm.log.
id=$1
d=/verif/seeded/$id
wt=$(mktemp -d /tmp/kverif-cwt-XXXXXX)
git -C /repo worktree add -q --detach $wt HEAD || exit 2
trap 'git -C /repo worktree remove --force '$wt' 2>/dev/null; rm -rf '$wt'' EXIT
printf '__version__ = "0.0.0"\n__version_tuple__ = (0, 0, 0)\n' > $wt/src/kio/_version.py
demo=$(ls $d/demo_*.py | head -1)
cp $demo $wt/
export PYTHONPATH=$wt/src:$wt PYTHONDONTWRITEBYTECODE=1
cd $wt
{
echo "== $id reconfirmed in a fresh worktree of /repo $(git rev-parse --short HEAD)"
echo "== demo WITHOUT change:"; timeout 900 /venv/bin/python $(basename $demo) > /tmp/rc_$id.a 2>&1; wo=$?; tail -2 /tmp/rc_$id.a; echo "exit=$wo"
git apply $d/patch.diff || echo "PATCH DOES NOT APPLY"
echo "== files changed:"; git diff --stat | tail -4
echo "== demo WITH change:"; timeout 900 /venv/bin/python $(basename $demo) > /tmp/rc_$id.b 2>&1; w=$?; tail -2 /tmp/rc_$id.b; echo "exit=$w"
echo "== suite WITH change:"; /venv/bin/python -m pytest -q -p no:cacheprovider -k "not _java" --deselect tests/test_integration.py --timeout=900 2>&1 | grep -E "passed|failed" | tail -1
echo "== verdict: demo_with=$w demo_without=$wo"
} > $d/confirm.log 2>&1
rm -f /tmp/rc_$id.a /tmp/rc_$id.b
echo "$id $(tail -2 $d/confirm.log | tr '\n' ' ')"
