"""write_meta.py <id> <property> <caught-by csv> <needs...> : write /verif/seeded/<id>/meta.json"""
import json, sys, os, re
mid, prop, caught, needs, summary = sys.argv[1:6]
d = f"/verif/seeded/{mid}"
log = open(f"{d}/confirm.log").read()
suite = re.search(r"(\d+ passed[^\n]*)", log)
verdict = re.search(r"verdict: (.*)", log)
meta = {
    "id": mid, "breaks_property": prop, "summary": summary, "needs_to_manifest": needs,
    "origin": "fresh sub-agent given only the property text and a scratch worktree",
    "confirmed": {"suite_with_change": suite.group(1) if suite else None, "demo": verdict.group(1) if verdict else None,
                  "how": "tools/confirm_mutant.sh (demo with/without the change, full non-java suite with the change) in the scratch worktree"},
    "caught_by": [c for c in caught.split(",") if c],
    "ran": "tools/run_on_mutant.sh (git -C /repo apply patch.diff; ./check <ID> --tier quick; revert) or tools/run_on_mutant_wt.sh (same checks with KVERIF_REPO pointing at a throw-away worktree with the patch applied)",
    "files": sorted(os.listdir(d)),
}
json.dump(meta, open(f"{d}/meta.json", "w"), indent=1)
print("wrote", d)
