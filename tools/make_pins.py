"""Regenerate the pins derived from the baseline tree (run once at the baseline schema; the result is
committed).  pins/schema-3.9.0.describe.json.gz and pins/kafka-3.9.0-apis.json."""
import gzip, json, sys
sys.path.insert(0, "/verif")
from kverif import describe

d = describe.describe("/repo/src")
assert not d["import_errors"]
with gzip.open("/verif/pins/schema-3.9.0.describe.json.gz", "wt", compresslevel=9) as f:
    json.dump(d, f, sort_keys=True, separators=(",", ":"))
apis = {}
for modname, m in d["modules"].items():
    _, _, api, v, typ = modname.split(".")
    v = int(v[1:])
    top = [c for c in m["classes"] if c["cv"]["__type__"] != "nested"]
    assert len(top) == 1
    a = apis.setdefault(api, {"types": {}, "key": top[0]["cv"].get("__api_key__")})
    t = a["types"].setdefault(typ, {"versions": [], "flexible": []})
    t["versions"].append(v)
    if top[0]["cv"]["__flexible__"]:
        t["flexible"].append(v)
out = {}
for api, a in sorted(apis.items()):
    e = {"key": a["key"], "types": {}}
    for typ, t in a["types"].items():
        vs = sorted(t["versions"]); fl = sorted(t["flexible"])
        assert vs == list(range(vs[0], vs[-1] + 1))
        e["types"][typ] = {"min": vs[0], "max": vs[-1], "first_flexible": fl[0] if fl else None}
    out[api] = e
json.dump(out, open("/verif/pins/kafka-3.9.0-apis.json", "w"), indent=1, sort_keys=True)
print(len(out), "apis")
